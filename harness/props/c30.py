"""C30 CI merges only fully tested, approved, current PRs.

Real code: ci/ci/github.py `WatchedBranch` / `PR` (unmodified), driven through its real entry points `notify_github_changed`,
`notify_batch_changed`, `update` by a fake GitHub (`FakeGH`: REST refs/pulls/statuses/merge + the GraphQL reviewDecision /
statusCheckRollup query with pagination) and a fake batch service (`FakeBatchClient`).  Stubbed in the module namespace of ci.github:
check_shell, check_shell_output, open (build.yaml), BuildConfiguration, add_deployed_services, repos_lock; gidgethub / zulip /
prometheus_client are loader stubs.  The three blocks of the `_update` loop are observed by wrapping the bound methods
`_update_github`, `_update_batch`, `_heal`, `try_to_merge` of the WatchedBranch instance; after each block the state of the real
objects is dumped and compared with the Lean model (lean/HailVerif/Model/CI.lean) fed with the answers the fakes actually gave.
World events may also be applied in the middle of an update (at the k-th API call)."""
import asyncio
import io
import json
import re

from .. import loader, svcenv
from ..framework import Prop, generic_shrink_list

CI_CTX = 'ci-test'
RAW_STATES = ['PENDING', 'EXPECTED', 'ACTION_REQUIRED', 'STALE', 'FAILURE', 'ERROR', 'TIMED_OUT', 'CANCELLED', 'STARTUP_FAILURE', 'SKIPPED',
              'SUCCESS', 'NEUTRAL']
RAW_CLASS = {'NULL': 'pending', **{s: 'pending' for s in RAW_STATES[:4]}, **{s: 'failure' for s in RAW_STATES[4:10]}, **{s: 'success' for s in RAW_STATES[10:]}}
DECISIONS = ['APPROVED', 'CHANGES_REQUESTED', 'REVIEW_REQUIRED', 'NONE', 'OTHER']
LABEL_NAMES = ['prio:high', 'WIP', 'stacked PR', 'do-not-test', 'bug']
REPO = 'hail-is/hail'
BRANCH = 'main'
KEY_AMBIG = 'merge applied by GitHub but its response lost: the pass aborts with the old target sha; a later batch-only pass merges another PR tested against that sha'
KEY_LOST = 'a GitHub notification is forgotten when the refresh it triggers fails: CI then merges on its stale view'
KEY_DUP = 'merge while the batch for the current target is still running: build_state success inherited from another batch of the same source_sha'


def ctx_num(name):
    return 0 if name == CI_CTX else int(name[3:])


def ctx_name(n):
    return CI_CTX if n == 0 else f'ctx{n}'


class FaultInjected(Exception):
    """a GitHub request that fails (connection error / 5xx) at a scripted point"""


class FakeGH:
    """ground truth of GitHub + the API surface ci.github uses"""

    def __init__(self, h):
        self.h = h
        self.main = 100
        self.next_sha = 1000
        self.prs = {}           # number -> dict(head, author_ok, labels(list of 5 bools), decision, open)
        self.statuses = {}      # commit sha -> {context name: (required, raw state, typename)}
        self.reject_merges = 0
        self.fail_refreshes = 0     # the next n `getitem(refs/heads/…)` raise
        self.lose_response = None   # 'timeout' | 'disconnect': the next ACCEPTED merge is applied but its response is lost
        self.fail_graphql = None    # j: in the next refresh the GraphQL query of the j-th listed PR raises gidgethub.HTTPException
        self.fail_posts = 0         # the next n status posts raise gidgethub.HTTPException (caught by post_github_status)
        self.merge_log = []
        self.order_desc = False

    # -- world ----------------------------------------------------------------------------------------------------------
    def set_status(self, sha, ctx, required, raw, typename='StatusContext'):
        self.statuses.setdefault(sha, {})[ctx] = (required, raw, typename)

    # -- API ------------------------------------------------------------------------------------------------------------
    async def getitem(self, url):
        await self.h.api('getitem ' + url)
        assert url == f'/repos/{REPO}/git/refs/heads/{BRANCH}', url
        if self.fail_refreshes > 0:
            self.fail_refreshes -= 1
            self.h.rec_gh['failed'] = True
            raise FaultInjected('GET refs/heads failed')
        self.h.rec_gh['target'] = self.main
        return {'object': {'sha': str(self.main)}}

    async def getiter(self, url):
        await self.h.api('getiter ' + url)
        assert url == f'/repos/{REPO}/pulls?state=open&base={BRANCH}', url
        nums = sorted((n for n, p in self.prs.items() if p['open']), reverse=self.order_desc)
        listing = []
        for n in nums:
            p = self.prs[n]
            listing.append({
                'number': n, 'title': f'pr {n}', 'body': 'body', 'user': {'login': 'ehigham' if p['author_ok'] else 'mallory'},
                'assignees': [{'login': 'someone'}], 'requested_reviewers': [],
                'labels': [{'name': LABEL_NAMES[i]} for i in range(5) if p['labels'][i]],
                'head': {'sha': str(p['head']), 'ref': f'branch{n}', 'repo': {'owner': {'login': 'contributor'}, 'name': 'hail'}},
            })
        self.h.rec_gh['listing'] = [(j['number'], int(j['head']['sha']), j['user']['login'] == 'ehigham',
                                     [LABEL_NAMES[i] in {x['name'] for x in j['labels']} for i in range(5)]) for j in listing]
        for j in listing:
            yield j

    async def post(self, url, data=None):
        await self.h.api('post ' + url)
        if url == '/graphql':
            return self._graphql(data['query'])
        m = re.fullmatch(rf'/repos/{REPO}/statuses/(\w+)', url)
        if m:
            sha = int(m.group(1))
            assert data['context'] == CI_CTX
            self.h.outs.append(f"post:{self.h.pr_of_post(sha, data)}:{sha}:{data['state']}")
            self.h.ci_sent[sha] = data['state'].upper()
            if self.fail_posts > 0:
                self.fail_posts -= 1
                self.h.tags.append('fault:post')
                raise self.h.g.gidgethub.HTTPException()      # the status does not reach GitHub; CI logs and goes on
            self.set_status(sha, CI_CTX, self.h.case.get('ci_required', True), data['state'].upper())
            return {}
        if re.fullmatch(rf'/repos/{REPO}/issues/\d+/assignees', url):
            return {}
        raise AssertionError(url)

    def _graphql(self, q):
        n = int(re.search(r'pullRequest \(number: (\d+)\)', q).group(1))
        after = re.search(r'after: "(\d+)"', q)
        start = int(after.group(1)) if after else 0
        order = self.h.rec_gh.setdefault('gq_order', [])
        if n not in order:
            order.append(n)
            if self.fail_graphql is not None and len(order) - 1 == self.fail_graphql:
                # the GraphQL request for this PR fails with the exception type the real client raises for an HTTP error
                self.fail_graphql = None
                self.h.rec_gh['graphql_failed'] = len(order) - 1
                raise self.h.g.gidgethub.HTTPException()
        p = self.prs[n]
        ctxs = sorted(self.statuses.get(p['head'], {}).items(), key=lambda kv: (kv[0] != CI_CTX, kv[0]))
        if self.h.case.get('ci_last', False):
            ctxs = ctxs[1:] + ctxs[:1] if ctxs and ctxs[0][0] == CI_CTX else ctxs
        decision = {'NONE': None, 'OTHER': 'DISMISSED'}.get(p['decision'], p['decision'])
        if not ctxs:
            rollup = None
        else:
            page = ctxs[start:start + 10]
            nodes = []
            for name, (req, raw, typename) in page:
                if raw == 'NULL':        # a check run that is queued / in progress has no conclusion yet
                    nodes.append({'__typename': 'CheckRun', 'name': name, 'status': 'IN_PROGRESS', 'conclusion': None, 'isRequired': req})
                elif typename == 'StatusContext':
                    nodes.append({'__typename': 'StatusContext', 'context': name, 'state': raw, 'isRequired': req})
                else:
                    nodes.append({'__typename': 'CheckRun', 'name': name, 'conclusion': raw, 'isRequired': req})
            rollup = {'contexts': {'nodes': nodes, 'pageInfo': {'endCursor': str(start + 10), 'hasNextPage': start + 10 < len(ctxs)}}}
        rec = self.h.rec_gh.setdefault('graphql', {}).setdefault(n, {'decision': p['decision'], 'checks': []})
        if rollup:
            rec['checks'] += [(ctx_num(name), req, raw) for name, (req, raw, _) in ctxs[start:start + 10]]
        return {'data': {'repository': {'pullRequest': {'reviewDecision': decision,
                                                        'commits': {'nodes': [{'commit': {'statusCheckRollup': rollup}}]}}}}}

    async def put(self, url, data=None):
        await self.h.api('put ' + url)
        m = re.fullmatch(rf'/repos/{REPO}/pulls/(\d+)/merge', url)
        assert m, url
        n = int(m.group(1))
        # `sha` is the precondition "merge only if the PR head is still this commit"; without it GitHub merges whatever the head is
        sha = int(data['sha']) if data and data.get('sha') is not None else None
        p = self.prs.get(n)
        ok = bool(p and p['open'] and (sha is None or p['head'] == sha))
        if ok and self.reject_merges > 0:
            self.reject_merges -= 1
            ok = False
        self.h.on_merge_attempt(n, sha, ok)
        self.h.rec_heal['merges'].append(ok)
        self.h.outs.append(f"merge:{n}:{'none' if sha is None else sha}:{1 if ok else 0}")
        if not ok:
            raise self.h.g.gidgethub.HTTPException()
        p['open'] = False
        self.next_sha += 1
        self.main = self.next_sha
        # GitHub has applied the merge; the response is still on its way: events that reach CI right now
        await self.h.after_merge()
        if self.lose_response:
            # the merge is applied, but CI never sees the answer: the outcome is ambiguous for it
            kind, self.lose_response = self.lose_response, None
            self.h.tags.append('merge-response-lost')
            self.h.lost_response_pass = self.h.pass_id
            if kind == 'timeout':
                raise asyncio.TimeoutError()
            if kind == 'cancel':
                # the task running the pass is cancelled at this await (dropped webhook request, wait_for time-out)
                raise asyncio.CancelledError()
            import aiohttp
            raise aiohttp.ClientConnectionError('connection reset by peer')
        return {}


def make_fake_batch_class(real_batch):
    """FakeBatch must be an instance of hailtop.batch_client.aioclient.Batch: WatchedBranch._heal uses isinstance(pr.batch, Batch)"""

    class FakeBatch(real_batch):
        def __init__(self, svc, attributes):      # deliberately not calling Batch.__init__ (needs a real client)
            self.svc = svc
            self.attributes = attributes
            self._id = None
            self.state = 'running'

        @property
        def id(self):
            return self._id

        async def submit(self, *a, **k):
            await self.svc.h.api('batch.submit')
            self._id = self.svc.next_id
            self.svc.next_id += 1
            self.svc.batches.append(self)
            return self

        async def status(self):
            await self.svc.h.api('batch.status')
            return {'state': self.state, 'complete': self.state != 'running', 'id': self.id, 'attributes': self.attributes}

        async def cancel(self):
            await self.svc.h.api('batch.cancel')
            if self.state == 'running':
                self.state = 'cancelled'
            self.svc.h.outs.append(f'cancel:{self.id}')

    return FakeBatch


class FakeBatchClient:
    def __init__(self, h):
        self.h = h
        self.batches = []
        self.next_id = 1
        self.fail_lists = 0        # the next n first listings of a batch refresh raise

    def create_batch(self, attributes=None, callback=None, **k):
        return self.h.prop.FakeBatch(self, dict(attributes))

    async def list_batches(self, q):
        await self.h.api('list_batches ' + q)
        if 'source_sha=' in q:      # the listing of PR._update_batch (not the orphan sweep of _heal)
            self.h.batch_list_calls += 1
            if self.fail_lists > 0 and self.h.batch_list_calls == 1:
                self.fail_lists -= 1
                self.h.batch_failed = True
                raise FaultInjected('list_batches failed')
        terms = q.split()
        out = []
        for b in reversed(self.batches):
            ok = True
            for t in terms:
                if t == 'user:ci':
                    continue
                if t == '!complete':
                    ok = ok and b.state == 'running'
                elif t == '!open':
                    pass
                elif '=' in t:
                    k, v = t.split('=', 1)
                    ok = ok and b.attributes.get(k) == v
                else:
                    raise AssertionError(q)
            if ok:
                out.append(b)
        for b in out:
            yield b


class FakeDB:
    async def execute_and_fetchone(self, sql, args=None):
        return None

    async def select_and_fetchone(self, sql, args=None):
        return None

    async def execute_insertone(self, *a, **k):
        return None

    async def execute_many(self, *a, **k):
        return None


class History:
    """one run of the real code over a history"""

    def __init__(self, prop, case):
        self.prop, self.case, self.g = prop, case, prop.g
        self.model_lines, self.impl_lines, self.oracle_msgs = [], [], []
        self.tags = []
        self.outs = []
        self.rec_gh, self.rec_heal = {}, {'builds': [], 'merges': []}
        self.api_count = 0
        self.mid = []
        self.fail_builds = 0
        self.last_seen = {}
        self.last_seen_target = None
        self.n_merges = 0
        self.pending_flags = []
        self.in_block = False
        self.batch_list_calls = 0
        self.batch_failed = False
        self.clock = 0                 # logical time: one tick per API call / op
        self.pass_id = 0               # number of top-level entry-point calls so far
        self.delivered = None          # the latest GitHub webhook / poll delivered to CI: time, pass, GitHub's PRs at that moment
        self.last_ok_refresh_start = -1
        self.failed_refresh_times = []
        self.inplace = bool(case.get('inplace'))    # overlapping notifications are delivered at the await itself; no model comparison
        self.refreshed_since_merge = True
        self.ci_sent = {}      # head sha -> last ci-test state CI sent (whether or not the request reached GitHub)

    # -- hooks ----------------------------------------------------------------------------------------------------------
    async def api(self, what):
        self.api_count += 1
        self.clock += 1
        due = [op for (k, op) in self.mid if k == self.api_count]
        for op in due:
            await self.apply(op, nested=True)

    async def after_merge(self):
        due = [op for (k, op) in self.mid if k == 'merge']
        self.mid = [(k, op) for (k, op) in self.mid if k != 'merge']     # once
        for op in due:
            await self.apply(op, nested=True)

    def pr_of_post(self, sha, data):
        m = re.search(r'/pr/(\d+)$', data['target_url'])
        return int(m.group(1))

    def on_merge_attempt(self, n, sha, accepted):
        """THE ORACLE: the property's conditions at a merge request, against what GitHub last reported to CI for review / labels /
        required checks, and against the ground truth of the moment for the head commit, the target commit and the batches"""
        self.n_merges += 1
        self.tags.append('merge-accepted' if accepted else 'merge-rejected')
        seen = self.last_seen.get(n)
        p = self.gh.prs.get(n)
        msgs = []
        if seen is None:
            msgs.append(f'merge of pr {n} which GitHub never reported to CI')
        else:
            if seen['decision'] != 'APPROVED':
                msgs.append(f'not approved (reviewDecision {seen["decision"]}'
                            + ('; GitHub did not answer the query for this PR in CI\'s last refresh, which nevertheless completed' if seen.get('unanswered') else '') + ')')
            if seen['labels'][1] or seen['labels'][2]:
                msgs.append('labelled do-not-merge (WIP / stacked PR)')
            # other systems' required checks: as GitHub last reported them to CI; the CI's own context: the last state CI sent for the
            # head commit (a post that did not reach GitHub is CI's publication problem — whether the tests really passed is what the
            # batch condition below checks against the batch service)
            req = {c: RAW_CLASS[raw] for (c, r, raw) in seen['checks'] if r and c != 0}
            sent = self.ci_sent.get(seen['head'])            # sent by CI since its last refresh
            if sent is None:
                sent = next((raw for (c, r, raw) in seen['checks'] if c == 0), None)     # else: what GitHub reported at that refresh
            if sent is None:
                st = self.gh.statuses.get(seen['head'], {}).get(CI_CTX)
                sent = st[1] if st else None
            req[0] = RAW_CLASS[sent] if sent else 'missing'
            bad = sorted(f'{ctx_name(c)}={v}' for c, v in req.items() if v != 'success')
            if bad:
                msgs.append('required checks of the head commit not all successful: ' + ', '.join(bad))
            if sha is not None and sha != seen['head']:
                msgs.append(f'merge request for sha {sha} but the head GitHub last reported is {seen["head"]}')
            tgt = self.last_seen_target
            csha = sha if sha is not None else seen['head']
            good = [b for b in self.bc.batches if b.attributes.get('source_sha') == str(csha) and b.attributes.get('target_sha') == str(tgt)
                    and b.state == 'success']
            if not good:
                have = [(b.id, b.attributes.get('target_sha'), b.state) for b in self.bc.batches if b.attributes.get('source_sha') == str(csha)]
                msgs.append(f'no successful test batch of source {csha} against target {tgt} (batches of that source: {have})')
            if accepted:
                if not self.refreshed_since_merge:
                    lost = getattr(self, 'lost_response_pass', None)
                    msgs.append('second accepted merge without a GitHub refresh of the target branch in between'
                                + (' [in the SAME pass in which the response of the previous merge was lost]' if lost == self.pass_id else
                                   ' [in a later pass, after the response of the previous merge was lost]' if lost is not None else ''))
                self.refreshed_since_merge = False
        if accepted and p is not None:
            # ground truth: GitHub merged the PR's head of this moment; that commit must be the tested one
            merged = p['head']
            if sha is not None and sha != merged:
                msgs.append('accepted merge of a stale head')
            tested = [b for b in self.bc.batches if b.attributes.get('source_sha') == str(merged) and b.state == 'success'
                      and b.attributes.get('target_sha') == str(self.last_seen_target)]
            if not tested:
                msgs.append(f'GitHub merged head {merged}, a commit without a successful test batch against target {self.last_seen_target}'
                            + (' (the merge request carried no `sha` precondition)' if sha is None else ''))
        # GitHub's ground truth that CI has been TOLD about: a webhook delivered in an earlier pass (or as the entry of this one) obliges
        # CI to refresh before it merges; only a change whose webhook arrived during the running pass (or never) may still be unknown
        d = self.delivered
        if d and d['time'] > self.last_ok_refresh_start and (d['pass'] < self.pass_id or d['entry']):
            q = d['prs'].get(n)
            sub = []
            if q and q['open']:
                if q['labels'][1] or q['labels'][2]:
                    sub.append('labelled do-not-merge (WIP / stacked PR)')
                if q['decision'] != 'APPROVED':
                    sub.append(f'not approved (reviewDecision {q["decision"]})')
            if sub:
                failed = any(t >= d['time'] for t in self.failed_refresh_times)
                msgs.append(('[after a failed refresh] ' if failed else '') + 'on GitHub, as of a webhook delivered to CI in an earlier pass and not '
                            'followed by a completed refresh, the PR is ' + ', '.join(sub))
        if msgs:
            # does CI's PR object point at a batch that was created for ANOTHER pull request (same head commit)?
            rpr = self.wb.prs.get(n)
            rb = getattr(rpr, 'batch', None)
            shared = rb is not None and getattr(rb, 'attributes', {}).get('pr') not in (None, str(n))
            self.oracle_msgs.append(f'merge of pr {n} (sha {sha}, {"accepted" if accepted else "rejected"} by GitHub)'
                                    f'{" [batch of another PR with the same head]" if shared else ""}: ' + '; '.join(msgs))

    # -- state dump ---------------------------------------------------------------------------------------------------------
    def dump(self):
        wb = self.wb

        def opt(x):
            return 'N' if x is None else str(x)
        prs = []
        for pr in wb.prs.values():
            b = pr.batch
            if b is None:
                bs = 'N'
            elif isinstance(b, self.g.MergeFailureBatch):
                bs = f"F{b.attributes['target_sha']}"
            else:
                bs = f"B{b.id}:{b.attributes['target_sha']}"
            lab = ''.join('1' if n in pr.labels else '0' for n in LABEL_NAMES)
            st = ','.join(f'{k}:{v}' for k, v in sorted((ctx_num(c), s.value) for c, s in pr.last_known_github_status.items()))
            prs.append(f"#{pr.number} src={pr.source_sha} auth={1 if pr.author == 'ehigham' else 0} lab={lab} rev={opt(pr.review_state)} "
                       f"b={bs} bs={opt(pr.build_state)} int={pr.intended_github_status.value} st={st}")
        fl = ''.join('1' if f else '0' for f in (wb.github_changed, wb.batch_changed, wb.state_changed))
        svc = ','.join(f"{b.id}:{b.attributes['source_sha']}:{b.attributes['target_sha']}:{b.attributes['pr']}:{b.state}" for b in self.bc.batches)
        cand = wb.merge_candidate.number if wb.merge_candidate is not None else None
        return (f"sha={opt(wb.sha)} fl={fl} nrun={wb.n_running_batches} cand={opt(cand)} prs=[{'; '.join(prs)}] svc=[{svc}] "
                f"out=[{','.join(self.outs)}]")

    def emit(self, model_line):
        self.model_lines.append(model_line)
        self.impl_lines.append(self.dump())
        self.outs = []

    async def end_block(self):
        """an entry point called while a block of the loop is running only sets its flag(s) and returns (`updating` is True).  Setting a
        flag commutes with the rest of the block (a block only ever sets flags after its start), so the call is performed — on the real
        object — right after the block, where the model has an event boundary"""
        self.in_block = False
        pend, self.pending_flags = self.pending_flags, []
        for kind, f in pend:
            await f(self.db, self.bc, self.gh, False)
            self.tags.append('reentrant-notify')
            self.emit('flag ' + kind)

    # -- the wrapped blocks of the _update loop ----------------------------------------------------------------------------------------
    def install(self):
        g, wb = self.g, self.wb
        o_gh, o_batch, o_heal, o_merge = wb._update_github, wb._update_batch, wb._heal, wb.try_to_merge

        async def w_gh(gh):
            self.rec_gh = {}
            self.in_block = True
            refresh_start = self.clock
            self.refresh_raised = False
            try:
                await o_gh(gh)
            except BaseException:
                self.refresh_raised = True
                raise
            finally:
              r = self.rec_gh
              self.gh.fail_graphql = None        # a fault that found no PR to hit does not linger
              if r.get('failed'):
                self.failed_refresh_times.append(refresh_start)
                self.tags.append('fault:refresh')
                self.ghfail_pending = 'ghfail'      # dumped once the exception has passed through `_update` (which restores the flag)
              elif self.refresh_raised and r.get('gq_order') and 'graphql_failed' not in r:
                # the status loop of the last queried PR raised (`github_status(None)`: a required check run without conclusion): the
                # model decides that itself from the answers (`raisesAt`), so it gets the ordinary `gh` line with what was answered so far
                listing = r.get('listing', [])
                j = len(r['gq_order']) - 1
                parts = [f"gh {r.get('target', 0)} {len(listing)}"]
                self.last_seen_target = r.get('target')
                old_seen, self.last_seen = self.last_seen, {}
                for i, (n, head, auth, labels) in enumerate(listing):
                    gq = r.get('graphql', {}).get(n, {'decision': 'NONE', 'checks': []}) if i <= j else {'decision': 'NONE', 'checks': []}
                    parts.append(f"{n} {head} {1 if auth else 0} {''.join('1' if x else '0' for x in labels)} {gq['decision']} {len(gq['checks'])}")
                    parts += [f"{c} {1 if req else 0} {raw}" for (c, req, raw) in gq['checks']]
                    o = old_seen.get(n)
                    keep = o is not None and o['head'] == head
                    if i < j:
                        self.last_seen[n] = {'head': head, 'labels': labels, 'decision': gq['decision'], 'checks': gq['checks']}
                    else:
                        self.last_seen[n] = {'head': head, 'labels': labels, 'decision': gq['decision'] if i == j else (o['decision'] if keep else 'NONE'),
                                             'checks': o['checks'] if keep else []}
                self.failed_refresh_times.append(refresh_start)
                self.tags.append('refresh-raised:null-conclusion')
                self.ghfail_pending = ' '.join(parts)
              elif 'graphql_failed' in r and self.refresh_raised:
                # aborted at the GraphQL query of the j-th PR: target sha and PR list taken over, the first j PRs refreshed
                j = r['graphql_failed']
                listing = r.get('listing', [])
                parts = [f"ghpartial {j} {r.get('target', 0)} {len(listing)}"]
                self.last_seen_target = r.get('target')
                old_seen, self.last_seen = self.last_seen, {}
                for i, (n, head, auth, labels) in enumerate(listing):
                    gq = r.get('graphql', {}).get(n, {'decision': 'NONE', 'checks': []}) if i < j else {'decision': 'NONE', 'checks': []}
                    parts.append(f"{n} {head} {1 if auth else 0} {''.join('1' if x else '0' for x in labels)} {gq['decision']} {len(gq['checks'])}")
                    parts += [f"{c} {1 if req else 0} {raw}" for (c, req, raw) in gq['checks']]
                    if i < j:
                        self.last_seen[n] = {'head': head, 'labels': labels, 'decision': gq['decision'], 'checks': gq['checks']}
                    else:
                        o = old_seen.get(n)
                        keep = o is not None and o['head'] == head
                        self.last_seen[n] = {'head': head, 'labels': labels, 'decision': o['decision'] if keep else 'NONE',
                                             'checks': o['checks'] if keep else []}
                self.failed_refresh_times.append(refresh_start)
                self.tags.append('fault:graphql')
                self.ghfail_pending = ' '.join(parts)
              else:
                listing = r.get('listing', [])
                parts = [f"gh {r.get('target', 0)} {len(listing)}"]
                self.last_seen_target = r.get('target')
                self.last_ok_refresh_start = refresh_start
                self.refreshed_since_merge = True
                self.ci_sent = {}
                self.last_seen = {}
                for (n, head, auth, labels) in listing:
                    gq = r.get('graphql', {}).get(n, {'decision': 'NONE', 'checks': []})
                    parts.append(f"{n} {head} {1 if auth else 0} {''.join('1' if x else '0' for x in labels)} {gq['decision']} {len(gq['checks'])}")
                    parts += [f"{c} {1 if req else 0} {raw}" for (c, req, raw) in gq['checks']]
                    self.last_seen[n] = {'head': head, 'labels': labels, 'decision': gq['decision'], 'checks': gq['checks']}
                    if n not in r.get('graphql', {}) and n in self.gh.prs:
                        # the refresh "completed" although GitHub did not answer for this PR: judge by what GitHub would have said
                        self.last_seen[n]['decision'] = self.gh.prs[n]['decision']
                        self.last_seen[n]['unanswered'] = True
                self.tags.append('ev:gh')
                self.emit(' '.join(parts))
                await self.end_block()

        async def w_batch(bc, db):
            self.in_block = True
            self.batch_list_calls = 0
            self.batch_failed = False
            try:
                await o_batch(bc, db)
            finally:
                if self.batch_failed:
                    self.tags.append('fault:batch-refresh')
                    self.emit('batchfail')
                else:
                    self.tags.append('ev:batch')
                    self.emit('batch')
                await self.end_block()

        async def w_heal(db, bc, gh, frozen):
            self.rec_heal = {'builds': [], 'merges': []}
            self.in_block = True
            try:
                await o_heal(db, bc, gh, frozen)
            except BaseException:
                await self.finish_heal('exc-in-heal')
                raise

        async def w_merge(gh):
            try:
                await o_merge(gh)
            except AssertionError as e:
                pr = next((p for p in wb.prs_in_merge_priority_order()
                           if p.last_known_github_status.get(g.GITHUB_STATUS_CONTEXT) == g.GithubStatus.SUCCESS and p.build_state != 'success'), None)
                self.outs.append(f'assert:{pr.number if pr else "?"}')
                self.tags.append('assert-fired')
                await self.finish_heal(None)
                raise
            except BaseException:
                await self.finish_heal('exc-in-merge')
                raise
            await self.finish_heal(None)
        wb._update_github, wb._update_batch, wb._heal, wb.try_to_merge = w_gh, w_batch, w_heal, w_merge

    async def finish_heal(self, note):
        r = self.rec_heal
        self.tags.append('ev:heal')
        if note:
            self.outs.append(note)
        self.emit(f"heal {len(r['builds'])} {' '.join('1' if b else '0' for b in r['builds'])} {len(r['merges'])} "
                  f"{' '.join('1' if m else '0' for m in r['merges'])}".replace('  ', ' ').strip())
        await self.end_block()

    # -- world / entry ops ----------------------------------------------------------------------------------------------------------
    async def apply(self, op, nested=False):
        gh, t = self.gh, op[0]
        if t == 'open':
            _, n, head, author_ok, labels = op
            if n not in gh.prs:
                gh.prs[n] = {'head': head, 'author_ok': bool(author_ok), 'labels': [c == '1' for c in labels], 'decision': 'REVIEW_REQUIRED', 'open': True}
        elif t == 'push':
            if op[1] in gh.prs and gh.prs[op[1]]['open']:
                gh.prs[op[1]]['head'] = op[2]
        elif t == 'close':
            if op[1] in gh.prs:
                gh.prs[op[1]]['open'] = False
        elif t == 'review':
            if op[1] in gh.prs:
                gh.prs[op[1]]['decision'] = op[2]
        elif t == 'labels':
            if op[1] in gh.prs:
                gh.prs[op[1]]['labels'] = [c == '1' for c in op[2]]
        elif t == 'status':
            _, n, ctx, required, raw, typename = op
            if raw == 'NULL':
                typename = 'CheckRun'
            if n in gh.prs:
                gh.set_status(gh.prs[n]['head'], ctx_name(ctx), bool(required), raw, typename)
        elif t == 'target':
            gh.next_sha += 1
            gh.main = gh.next_sha
        elif t == 'done':
            running = [b for b in self.bc.batches if b.state == 'running']
            if running:
                b = running[op[1] % len(running)]
                b.state = 'success' if op[2] else 'failure'
                self.tags.append('world:done')
                self.emit(f'done {b.id} {1 if op[2] else 0}')
        elif t == 'fail_build':
            self.fail_builds += 1
        elif t == 'reject_merge':
            gh.reject_merges += 1
        elif t == 'fault_refresh':
            gh.fail_refreshes += 1
        elif t == 'fault_post':
            gh.fail_posts += 1
        elif t == 'fault_batch':
            self.bc.fail_lists += 1
        elif t == 'fault_graphql':
            gh.fail_graphql = op[1]
        elif t == 'lose_merge_response':
            gh.lose_response = op[1]
        elif t in ('notify_gh', 'notify_batch', 'update'):
            wb = self.wb
            f = {'notify_gh': wb.notify_github_changed, 'notify_batch': wb.notify_batch_changed, 'update': wb.update}[t]
            kind = {'notify_gh': 'g', 'notify_batch': 'b', 'update': 'all'}[t]
            self.clock += 1
            if not nested:
                self.pass_id += 1
            if t in ('notify_gh', 'update'):
                # a GitHub webhook (or the poll) reaches CI now: from here on CI knows that GitHub changed
                import copy
                self.delivered = {'time': self.clock, 'pass': self.pass_id, 'entry': not nested, 'prs': copy.deepcopy(gh.prs)}
                if nested:
                    self.tags.append('webhook-mid-block')
            if nested and self.inplace:
                # the entry point is called at this very await of the running pass; if the code starts a second, concurrent pass it runs
                # here while the first one is suspended.  Exceptions of that pass stay in it (they never reach the suspended one).
                self.tags.append('overlapping-notify')
                was_updating = self.wb.updating
                try:
                    await f(self.db, self.bc, gh, False)
                except BaseException:
                    pass
                if was_updating and not self.wb.updating:
                    self.tags.append('updating-flag-cleared-by-overlap')
                return
            if self.in_block:
                self.pending_flags.append((kind, f))
                return
            else:
                # the entry point sets its flag(s) before entering the loop: dump after the assignment, before the first block
                o_update = wb._update

                async def u(*a, **k):
                    wb._update = o_update
                    self.emit('flag ' + kind)
                    return await o_update(*a, **k)
                wb._update = u
            if not nested:
                self.api_count = 0
                self.mid = [tuple(x) for x in (op[1] if len(op) > 1 else [])]
            try:
                await f(self.db, self.bc, gh, False)
            except (AssertionError, FaultInjected, ValueError, asyncio.TimeoutError, asyncio.CancelledError, __import__('aiohttp').ClientError,
                    self.g.gidgethub.HTTPException):
                pass      # what the webhook handler / update_loop see (logged, 500); the flags stay as the aborted pass left them
            if getattr(self, 'ghfail_pending', False):
                line, self.ghfail_pending = self.ghfail_pending, False
                self.emit(line)
                # entry points that were called while the failed refresh was in flight only set their flags (`updating` was True):
                # perform them now under the same condition
                wb.updating = True
                try:
                    await self.end_block()
                finally:
                    wb.updating = False
            if not nested:
                self.mid = []
        else:
            raise AssertionError(op)
        if t not in ('notify_gh', 'notify_batch', 'update', 'done'):
            self.tags.append('world:' + t)

    async def main(self):
        g = self.g
        self.gh, self.bc, self.db = FakeGH(self), FakeBatchClient(self), FakeDB()
        self.gh.order_desc = bool(self.case.get('order_desc', False))
        g.repos_lock = asyncio.Lock()

        async def check_shell(script, *a, **k):
            await self.api('check_shell')
            ok = self.fail_builds == 0
            if not ok:
                self.fail_builds -= 1
            self.rec_heal['builds'].append(ok)
            if not ok:
                self.outs.append(f'startfailed:{self.cur_start}')
                raise RuntimeError('merge conflict')

        async def check_shell_output(script, *a, **k):
            return (b'deadbeef\n', b'')
        g.check_shell, g.check_shell_output = check_shell, check_shell_output
        o_start = g.PR._start_build
        h = self

        async def start_build(pr, db, bc):
            h.cur_start = pr.number
            nb = len(h.bc.batches)
            await o_start(pr, db, bc)
            if len(h.bc.batches) > nb:
                b = h.bc.batches[-1]
                h.outs.append(f"start:{pr.number}:{b.id}:{b.attributes['source_sha']}:{b.attributes['target_sha']}")
        self.patched_start = (g.PR, o_start)
        g.PR._start_build = start_build
        try:
            self.wb = g.WatchedBranch(0, g.FQBranch.from_short_str(f'{REPO}:{BRANCH}'), False, True, [])
            self.install()
            for op in self.case['ops']:
                await self.apply(op)
        finally:
            g.PR._start_build = o_start


class _BuildConfiguration:
    def __init__(self, code, config_str, scope, requested_step_names=(), excluded_step_names=()):
        pass

    def namespace(self):
        return 'pr-ns'

    def deployed_services(self):
        return []

    def build(self, batch, code, scope):
        return None


class C30(Prop):
    id = 'C30'
    title = 'CI merges only fully tested, approved, current PRs'
    lean_props = ['HailVerif.Props.C30']
    driver = 'Driver/C30.lean'
    engine = 'E6-ci'
    design_ref = 'DESIGN.md §4 C30'
    technique = ('Lean 4 state-machine model of WatchedBranch/PR (github refresh, batch refresh, heal + merge) with the batch service in the '
                 'state; invariants and merge-guard theorems over all event histories; differential correspondence with the real '
                 'ci.github classes driven by fake GitHub / batch services replaying generated histories')
    level_text = ('Theorems over every state reachable by ANY history of GitHub snapshots (arbitrary content, distinct PR numbers), batch '
                  'refreshes, heal+merge blocks with arbitrary build/merge answers, batch completions and entry-point flag settings: '
                  'merge_guard (a merge request is sent only for a PR that CI knows as approved, without WIP/stacked label, with non-empty '
                  'all-success required statuses, build_state success — via the assert in is_mergeable —, naming the current head, whose '
                  'batch is a real batch against the known target sha); status_is_for_current_head (build_state success always has a real '
                  'batch; a new head resets batch/build state in the refresh that learns it); one_merge_per_target_update (an accepted merge '
                  'forgets the target sha, no merge without it, only a GitHub refresh restores it, at most one accepted merge per block). '
                  'merge_only_tested: the batch service has a SUCCESSFUL batch of the merged head against the known target (full '
                  'strength, code as of commit aefc231fb). The code before that commit is kept as fix=false: the statement is refuted for it '
                  'in Lean (two PRs with the same head commit).')
    level_note = ('PARTIAL: GitHub and the batch service are models (FakeGH, FakeBatchClient / the svc component of the Lean state); the only '
                  'GitHub guarantee used is that a merge request with a stale `sha` is refused. Deploy batches, the frozen flag, invalidated '
                  'batches, authorized_shas, assignee handling and MergeFailure details are outside the model (non-deployable, unfrozen '
                  'branch). Correspondence is differential: the real WatchedBranch/PR objects are dumped after every block of the _update '
                  'loop and compared with the model fed with the answers the fakes gave (hundreds of generated histories per run incl. '
                  're-entrant notifications and world changes in the middle of an update); re-entrant entry-point calls are performed at '
                  'block boundaries (flag assignments commute with the rest of a block). Histories marked `inplace` deliver two or more '
                  'overlapping notifications at the await itself (also inside the merge request, after GitHub applied the merge) so that a pass '
                  'the code wrongly starts runs concurrently; these are judged by the oracle only (no model comparison).')
    budget = {'quick': 800, 'thorough': 10000}
    search_budget = {'quick': 600, 'thorough': 8000}
    rule = ('case = history of world events (open/push/close PR, review decision, labels, status of an external check, target-branch push, '
            'batch completion, scripted checkout failure / merge rejection / failing GitHub refresh (branch ref or the GraphQL query of one PR) / failing status post / failing batch listing) and CI entry points (github webhook, batch callback, periodic '
            'update), optionally with world events applied at the k-th API call inside an update; head shas from a small pool so that PRs can '
            'share a head; non-trivial = at least one merge request or a fired is_mergeable assertion; distinct by the trace of event outputs')
    trusted = ['fake GitHub (REST refs/pulls/statuses/merge + GraphQL reviewDecision/statusCheckRollup with pagination) and fake batch client '
               'written from the calls ci/github.py makes', 'stubs in ci.github: check_shell, check_shell_output, open, BuildConfiguration, '
               'add_deployed_services, repos_lock; loader stubs for gidgethub, zulip, prometheus_client',
               'wrapping the bound methods _update_github/_update_batch/_heal/try_to_merge of the WatchedBranch instance to observe the loop']
    assumptions = ['GitHub refuses a merge request whose `sha` is not the current head of the PR (the only GitHub-side guarantee used)',
                   '"every reported check" is read as every REQUIRED check of the head commit (the code filters on isRequired) plus the CI\'s own status',
                   'review / label / required-check facts and the target branch commit are judged as GitHub last reported them to CI (CI polls; a push whose webhook has not arrived yet cannot be known to it)',
                   'list_batches(source_sha=…) returns exactly the ci test batches with that attribute, newest first',
                   'a required check run without conclusion (queued / in progress) makes github_status(None) raise ValueError out of the refresh pass (the current behaviour of /repo; modelled as such: checksRaise / raisesAt)',
                   'GitHub facts CI was notified of (webhook delivered in an earlier pass, or as the entry of the pass) are judged against GitHub\'s ground truth of the delivery moment unless CI completed a refresh since; only changes whose webhook arrives during the running pass, or never, may be unknown to CI']

    def setup(self, repo):
        import os
        os.environ.setdefault('HAIL_CI_GITHUB_CONTEXT', CI_CTX)
        os.environ.setdefault('HAIL_CI_UTILS_IMAGE', 'img')
        os.environ.setdefault('HAIL_BUILDKIT_IMAGE', 'img')
        os.environ.setdefault('HAIL_CI_STORAGE_URI', 'gs://ci')
        loader.install(repo)
        svcenv.prepare()
        from ..minisql.env import set_batch_env
        set_batch_env()
        import ci.github as g
        self.g = g
        g.BuildConfiguration = _BuildConfiguration
        self.FakeBatch = make_fake_batch_class(g.Batch)
        import logging
        logging.disable(logging.CRITICAL)

        async def add_deployed_services(*a, **k):
            return None
        g.add_deployed_services = add_deployed_services
        g.open = lambda *a, **k: io.StringIO('')
        self._cache = {}

    # ---- running a history -------------------------------------------------------------------------------------------------
    def run_history(self, c):
        k = json.dumps(c, sort_keys=True)
        if k not in self._cache:
            if len(self._cache) > 64:
                self._cache.clear()
            h = History(self, c)
            loop = asyncio.new_event_loop()
            try:
                asyncio.set_event_loop(loop)
                loop.run_until_complete(h.main())
            finally:
                loop.close()
                asyncio.set_event_loop(None)
            self._cache[k] = h
        return self._cache[k]

    def model_lines(self, c):
        if c.get('inplace') or c.get('oracle_only'):
            return ['reset']      # truly overlapping passes have no place in the model's event order: these histories are for the oracle only
        return ['reset'] + self.run_history(c).model_lines

    def impl(self, c):
        if c.get('inplace') or c.get('oracle_only'):
            self.run_history(c)
            return ['ok']
        return ['ok'] + self.run_history(c).impl_lines

    def oracle(self, c, out):
        if out and out[0].startswith('IMPL-EXC'):
            return out[0]
        h = self.run_history(c)
        return h.oracle_msgs[0] if h.oracle_msgs else None

    def finding_key(self, c, msg):
        # root cause: an exception out of the merge request leaves `sha` and `github_changed` as they were although GitHub may have merged
        if msg.endswith('[in a later pass, after the response of the previous merge was lost]') and msg.count('; ') == 0:
            return KEY_AMBIG
        # root cause: `_update` clears github_changed before `_update_github`; if that refresh raises, nobody sets it again
        if '[after a failed refresh] on GitHub' in msg and msg.count('; ') == 0:
            return KEY_LOST
        # one root cause = one key: the merged PR's batch belongs to another PR with the same head commit and is unfinished; the only
        # complaints are the missing successful batch and (the other PR keeps re-posting it) the ci-test status of the shared commit
        if '[batch of another PR with the same head]' in msg and 'no successful test batch' in msg and "'running')" in msg:
            parts = msg.split(': ', 1)[1].split('; ')
            if all(p.startswith('no successful test batch') or p == 'required checks of the head commit not all successful: ci-test=pending'
                   for p in parts):
                return KEY_DUP
        return msg

    def classify(self, c, out):
        h = self.run_history(c)
        tags = sorted(set(h.tags)) + [f'merges={min(h.n_merges, 3)}']
        nontrivial = h.n_merges > 0 or 'assert-fired' in h.tags
        key = '|'.join(l.split(' out=')[1] for l in h.impl_lines if ' out=[' in l and not l.endswith('out=[]'))
        return (key if nontrivial else None, tags)

    # ---- generator -------------------------------------------------------------------------------------------------------------
    def gen_history(self, rng, n_ops):
        ops = []
        shas = [500, 501, 502, 503]
        open_prs = []
        next_pr = 1
        dup_heads = rng.random() < 0.35
        n_ext = rng.choice([0, 0, 1, 2, 12])

        def notify():
            r = rng.random()
            mid = []
            if rng.random() < 0.25:
                k = rng.randint(1, 12)
                w = world()
                if w[0] == 'done':      # a completion in the middle of a block cannot be placed in the model's event order
                    w = ['target']
                choice = rng.choice([['notify_gh'], ['notify_batch'], w, w])
                mid.append([k, choice])
                if choice is w and rng.random() < 0.7:
                    mid.append([k + rng.choice([0, 0, 1]), ['notify_gh']])     # …and its webhook arrives while the pass is still running
            if r < 0.6:
                return ['notify_gh', mid]
            if r < 0.85:
                return ['notify_batch', mid]
            return ['update', mid]

        def labels():
            return ''.join(rng.choice('0001') if i != 3 else rng.choice('00000001') for i in range(5))

        def world():
            nonlocal next_pr
            r = rng.random()
            if (r < 0.12 and len(open_prs) < 4) or not open_prs:
                n = next_pr
                next_pr += 1
                open_prs.append(n)
                head = rng.choice(shas) if dup_heads else 500 + 10 * n
                return ['open', n, head, 0 if rng.random() < 0.1 else 1, labels()]
            n = rng.choice(open_prs)
            if r < 0.22:
                return ['push', n, rng.choice(shas) if dup_heads else 500 + 10 * n + rng.randint(1, 5)]
            if r < 0.45:
                return ['review', n, rng.choice(['APPROVED'] * 5 + DECISIONS)]
            if r < 0.55:
                return ['labels', n, labels()]
            if r < 0.65 and n_ext:
                ctx = rng.randint(1, n_ext)
                return ['status', n, ctx, 0 if rng.random() < 0.2 else 1, rng.choice(['SUCCESS'] * 6 + RAW_STATES + ['NULL']),
                        rng.choice(['StatusContext', 'CheckRun'])]
            if r < 0.72:
                return ['target']
            if r < 0.93:
                return ['done', rng.randint(0, 5), 0 if rng.random() < 0.2 else 1]
            if r < 0.95:
                return ['fail_build']
            if r < 0.97:
                return ['reject_merge']
            if r < 0.978:
                return ['fault_refresh']
            if r < 0.984:
                return ['fault_post']
            if r < 0.99:
                return ['fault_batch']
            if r < 0.995:
                return ['fault_graphql', rng.randint(0, 2)]
            if r < 0.985:
                open_prs.remove(n)
                return ['close', n]
            return ['target']
        for _ in range(n_ops):
            w = world()
            ops.append(w)
            if rng.random() < 0.85:
                ops.append(notify())
        ops.append(['update', []])
        return {'ci_required': rng.random() < 0.7, 'ci_last': rng.random() < 0.3, 'order_desc': rng.random() < 0.3, 'ops': ops}

    def gen_directed(self, rng):
        """several PRs become mergeable against the same target commit; around the merge a GitHub request fails (the refresh right
        after the merge, a status post, or the merge itself) and only batch callbacks arrive before the next full poll"""
        k = rng.choice([2, 2, 3])
        ops = [['open', i, 500 + 10 * i, 1, '00000'] for i in range(1, k + 1)]
        ops += [['review', i, 'APPROVED'] for i in range(1, k + 1)]
        ops.append(['notify_gh', []])
        pending = k
        while pending:
            ops.append(['done', 0, 1])
            pending -= 1
            if pending and rng.random() < 0.5:
                ops.append(['notify_batch', []])
        ops.append(rng.choice([['fault_refresh'], ['fault_refresh'], ['fault_post'], ['reject_merge'], ['fault_refresh']]))
        if rng.random() < 0.3:
            ops.append(['fault_refresh'])
        ops.append(rng.choice([['notify_batch', []], ['notify_batch', []], ['update', []]]))
        for _ in range(rng.choice([1, 2, 3])):
            ops.append(rng.choice([['notify_batch', []], ['notify_batch', []], ['done', 0, 1], ['notify_gh', []], ['fault_refresh'], ['target']]))
        ops += [['notify_batch', []], ['update', []]]
        return {'ci_required': rng.random() < 0.7, 'ci_last': False, 'order_desc': rng.random() < 0.3, 'ops': ops}

    def gen_push_race(self, rng):
        """the author pushes a new commit after CI's last GitHub refresh; the old head's batch-completion callback is processed
        before the push webhook: the merge request must carry the tested sha so that GitHub refuses it"""
        k = rng.choice([1, 1, 2])
        ops = [['open', i, 500 + 10 * i, 1, '00000'] for i in range(1, k + 1)]
        ops += [['review', i, 'APPROVED'] for i in range(1, k + 1)]
        ops.append(['notify_gh', []])
        if rng.random() < 0.4:
            ops.append(['status', 1, 1, 1, 'SUCCESS', 'StatusContext'])
        victim = rng.randint(1, k)
        steps = [['push', victim, 500 + 10 * victim + rng.randint(1, 5)]] + [['done', 0, 1] for _ in range(k)]
        if rng.random() < 0.5:
            steps = steps[1:2] + steps[:1] + steps[2:]
        ops += steps
        ops.append(['notify_batch', []])
        if rng.random() < 0.5:
            ops.append(['notify_batch', []])
        ops += [['notify_gh', []], ['done', 0, 1], ['notify_batch', []], ['update', []]]
        return {'ci_required': rng.random() < 0.7, 'ci_last': False, 'order_desc': False, 'ops': ops}

    def gen_overlap(self, rng):
        """several PRs mergeable against the same target; while a pass is suspended at an await (inside the merge request after GitHub
        applied it, or at the k-th API call) TWO OR MORE notifications arrive; delivered in place, so a pass the code wrongly starts
        runs concurrently with the suspended one"""
        k = rng.choice([2, 2, 3])
        ops = [['open', i, 500 + 10 * i, 1, '00000'] for i in range(1, k + 1)]
        ops += [['review', i, 'APPROVED'] for i in range(1, k + 1)]
        ops.append(['notify_gh', []])
        ops += [['done', 0, 1] for _ in range(k)]
        n_over = rng.choice([1, 2, 2, 3])
        where = rng.choice(['merge', 'merge', 'merge', rng.randint(1, 8)])
        kinds = [rng.choice([['notify_batch'], ['notify_batch'], ['notify_gh'], ['update']]) for _ in range(n_over)]
        ops.append([rng.choice(['notify_batch', 'notify_batch', 'update']), [[where, kd] for kd in kinds]])
        ops += [['notify_batch', []], ['update', []], ['done', 0, 1], ['done', 0, 1], ['notify_batch', []], ['update', []]]
        return {'ci_required': True, 'ci_last': False, 'order_desc': rng.random() < 0.3, 'inplace': True, 'ops': ops}

    def gen_lost_merge_response(self, rng):
        """two or more PRs mergeable against the same target; GitHub APPLIES the first merge but the response is lost (timeout /
        connection reset): for CI the outcome is ambiguous; judged by the oracle only"""
        k = rng.choice([2, 2, 3])
        ops = [['open', i, 500 + 10 * i, 1, '00000'] for i in range(1, k + 1)]
        ops += [['review', i, 'APPROVED'] for i in range(1, k + 1)]
        ops.append(['notify_gh', []])
        ops += [['done', 0, 1] for _ in range(k)]
        ops.append(['lose_merge_response', rng.choice(['timeout', 'disconnect', 'cancel', 'cancel'])])
        ops.append([rng.choice(['notify_batch', 'update']), []])
        ops += [rng.choice([['notify_gh', []], ['notify_gh', []], ['update', []], ['notify_batch', []]]), ['notify_batch', []], ['done', 0, 1], ['done', 0, 1], ['notify_batch', []], ['update', []]]
        return {'ci_required': True, 'ci_last': False, 'order_desc': rng.random() < 0.3, 'oracle_only': True, 'ops': ops}

    def gen_running_check(self, rng):
        """everything about the PR is mergeable except that ANOTHER required check run on its head is still queued / in progress
        (conclusion null); later it concludes"""
        k = rng.choice([1, 1, 2])
        ops = [['open', i, 500 + 10 * i, 1, '00000'] for i in range(1, k + 1)]
        ops += [['review', i, 'APPROVED'] for i in range(1, k + 1)]
        victim = rng.randint(1, k)
        for c in range(1, rng.randint(1, 3) + 1):
            ops.append(['status', victim, c, 1, 'SUCCESS', rng.choice(['StatusContext', 'CheckRun'])])
        ops.append(['status', victim, 9, rng.choice([1, 1, 1, 0]), 'NULL', 'CheckRun'])
        ops.append(['notify_gh', []])
        ops += [['done', 0, 1] for _ in range(k)]
        ops += [['notify_batch', []], ['notify_gh', []], ['update', []]]
        ops += [['status', victim, 9, 1, rng.choice(['SUCCESS', 'SUCCESS', 'FAILURE']), 'CheckRun'], ['notify_gh', []], ['notify_batch', []], ['update', []]]
        return {'ci_required': rng.random() < 0.7, 'ci_last': rng.random() < 0.3, 'order_desc': False, 'ops': ops}

    def gen_review_during_build(self, rng):
        """an approved PR whose up-to-date test batch is still running becomes unmergeable on GitHub (changes requested, review
        dismissed, WIP label); ONE request of the refresh that the webhook triggers fails (the branch ref, or the GraphQL query of one
        PR); the next events are batch callbacks only"""
        k = rng.choice([1, 2, 3])
        ops = [['open', i, 500 + 10 * i, 1, '00000'] for i in range(1, k + 1)]
        ops += [['review', i, 'APPROVED'] for i in range(1, k + 1)]
        ops.append(['notify_gh', []])
        victim = rng.randint(1, k)
        ops.append(rng.choice([['review', victim, 'CHANGES_REQUESTED'], ['review', victim, 'CHANGES_REQUESTED'], ['review', victim, 'REVIEW_REQUIRED'],
                               ['labels', victim, '01000']]))
        desc = bool(rng.random() < 0.3)
        pos = (k - victim) if desc else (victim - 1)          # position of the victim in the listing
        ops.append(rng.choice([['fault_graphql', pos], ['fault_graphql', pos], ['fault_graphql', rng.randint(0, k - 1)], ['fault_refresh']]))
        ops.append(['notify_gh', []])
        ops += [['done', 0, 1] for _ in range(k)]
        ops.append(['notify_batch', []])
        if rng.random() < 0.5:
            ops.append(['notify_batch', []])
        ops.append(['update', []])
        return {'ci_required': rng.random() < 0.7, 'ci_last': False, 'order_desc': desc, 'ops': ops}

    def gen_push_after_green(self, rng):
        """the old head was tested green but not merged; the author pushes a new commit (and the PR gets approved); the batch listing
        fails in the pass that notices the push; the next events are GitHub webhooks only: the new head must not be merged on the
        old head's batch"""
        k = rng.choice([1, 1, 2])
        ops = [['open', i, 500 + 10 * i, 1, '00000'] for i in range(1, k + 1)]
        if rng.random() < 0.4:
            ops += [['review', i, 'APPROVED'] for i in range(1, k + 1)] + [['labels', i, '01000'] for i in range(1, k + 1)]
        ops.append(['notify_gh', []])
        ops += [['done', 0, 1] for _ in range(k)]
        ops.append(['notify_batch', []])
        victim = rng.randint(1, k)
        ops += [['push', victim, 500 + 10 * victim + rng.randint(1, 5)], ['review', victim, 'APPROVED'], ['labels', victim, '00000']]
        ops.append(rng.choice([['fault_batch'], ['fault_batch'], ['fault_refresh'], ['fault_post']]))
        ops.append(['notify_gh', []])
        for _ in range(rng.choice([1, 2, 3])):
            ops.append(rng.choice([['notify_gh', []], ['notify_gh', []], ['review', victim, 'APPROVED'], ['fault_batch']]))
        ops += [['notify_gh', []], ['done', 0, 1], ['notify_batch', []], ['update', []]]
        return {'ci_required': rng.random() < 0.7, 'ci_last': False, 'order_desc': False, 'ops': ops}

    def gen_many_contexts(self, rng):
        """a head commit with 11-25 status contexts / check runs (the GraphQL query returns them 10 per page): everything is green,
        approved, unlabelled and up to date except ONE required context, which often sits on the second or third page"""
        k = rng.choice([1, 1, 2])
        ops = [['open', i, 500 + 10 * i, 1, '00000'] for i in range(1, k + 1)]
        ops += [['review', i, 'APPROVED'] for i in range(1, k + 1)]
        victim = rng.randint(1, k)
        n_ctx = rng.randint(11, 25)
        bad = rng.randint(1, n_ctx) if rng.random() < 0.85 else 0
        for c in range(1, n_ctx + 1):
            state = rng.choice(['FAILURE', 'PENDING', 'ERROR', 'EXPECTED', 'TIMED_OUT', 'ACTION_REQUIRED']) if c == bad else rng.choice(['SUCCESS', 'SUCCESS', 'NEUTRAL'])
            required = 1 if c == bad or rng.random() < 0.8 else 0
            ops.append(['status', victim, c, required, state, rng.choice(['StatusContext', 'CheckRun'])])
        ops.append(['notify_gh', []])
        ops += [['done', 0, 1] for _ in range(k)]
        ops.append(['notify_batch', []])
        ops.append(['update', []])
        if bad and rng.random() < 0.5:
            ops += [['status', victim, bad, 1, 'SUCCESS', 'StatusContext'], ['notify_gh', []], ['update', []]]   # …then it turns green: now it may merge
        return {'ci_required': rng.random() < 0.7, 'ci_last': rng.random() < 0.5, 'order_desc': False, 'ops': ops}

    def gen_mid_refresh(self, rng):
        """a PR becomes unmergeable on GitHub (label, review dismissed, new commit) and the webhook arrives WHILE a refresh is in
        flight — after the PR list was fetched; later its test batch succeeds and only the batch callback arrives"""
        k = rng.choice([1, 2, 3])
        ops = [['open', i, 500 + 10 * i, 1, '00000'] for i in range(1, k + 1)]
        ops += [['review', i, 'APPROVED'] for i in range(1, k + 1)]
        ops.append(['notify_gh', []])
        victim = rng.randint(1, k)
        change = rng.choice([['labels', victim, '01000'], ['labels', victim, '00100'], ['review', victim, 'CHANGES_REQUESTED'],
                             ['labels', victim, '01000'], ['review', victim, 'REVIEW_REQUIRED']])
        at = rng.randint(2, 3 + k)          # API calls of a refresh: 1 = refs, 2 = pulls listing, 3… = one GraphQL query per PR
        ops.append([rng.choice(['notify_gh', 'update']), [[at, change], [at + rng.choice([0, 0, 1]), ['notify_gh']]]])
        ops += [['done', 0, 1] for _ in range(k)]
        ops.append(['notify_batch', []])
        if rng.random() < 0.5:
            ops.append(['notify_batch', []])
        ops.append(['update', []])
        return {'ci_required': rng.random() < 0.7, 'ci_last': False, 'order_desc': rng.random() < 0.3, 'ops': ops}

    def cases(self, rng, n, tier):
        # half of the histories are free random ones, the other half rotate through the nine directed scenario families
        directed = [self.gen_many_contexts, self.gen_push_after_green, self.gen_review_during_build, self.gen_running_check,
                    self.gen_overlap, self.gen_mid_refresh, self.gen_push_race, self.gen_directed, self.gen_lost_merge_response]
        for i in range(n):
            if i % 2 == 1:
                yield directed[(i // 2) % len(directed)](rng)
            else:
                yield self.gen_history(rng, rng.choice([6, 10, 16, 24, 40]))

    def shrink(self, c, fails):
        if not fails(c):
            return c
        ops = generic_shrink_list(c['ops'], lambda ops: fails({**c, 'ops': ops}))
        return {**c, 'ops': ops}


PROP = C30()

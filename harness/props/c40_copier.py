"""C40, caller level: the copy tool's use of its transfer semaphore.

Drives the REAL `SourceCopier._copy_file_multi_part` (-> `_copy_file` for small files, `_copy_part` tasks under `bounded_gather2`
for large ones; hail/python/hailtop/aiotools/fs/copier.py) of several files that share one real `WeightedSemaphore` with a small
budget, over an in-memory file system whose every operation first waits on a harness gate.  Faults: a file's task is cancelled at
its j-th suspension (aloop.Stepper — so also while it waits inside `xfer_sema.acquire`), or its k-th file-system operation raises.

What is checked, from outside the semaphore:
* in-flight buffers: a transfer holds its buffer from its first file-system call after acquiring (open of the source / create_part)
  until the matching context exit just before the release; the sum of the buffers in flight never exceeds the budget;
* at rest (every task finished) the semaphore is full again: value == max, nothing in flight;
* nobody is stuck waiting for a buffer while nothing is in flight.
"""
import asyncio
import random

from .. import aloop


class Injected(Exception):
    """a non-transient failure of a file-system operation"""


class _Stat:
    def __init__(self, n):
        self.n = n

    async def size(self):
        return self.n


class _Run:
    """book-keeping of one case"""

    def __init__(self, c, sched, rng):
        self.c, self.sched, self.rng = c, sched, rng
        self.holding = {}        # (file, slot) -> bytes of buffer in flight
        self.problem = None
        self.ops = {}            # file -> number of fs operations so far
        self.n_gate = 0
        self.peak = 0
        self.first_call = set()  # files that made a file-system call (i.e. got through acquire at least once)

    def note(self, msg):
        if self.problem is None:
            self.problem = msg

    def mark(self, k, slot, w):
        self.first_call.add(k)
        self.holding[(k, slot)] = w
        total = sum(self.holding.values())
        self.peak = max(self.peak, total)
        if total > self.c['budget']:
            self.note(f"buffers in flight {sorted(self.holding.items())} add up to {total} > budget {self.c['budget']}")

    def unmark(self, k, slot):
        self.holding.pop((k, slot), None)

    async def gate(self, k, what):
        self.ops[k] = self.ops.get(k, 0) + 1
        n = self.ops[k]
        self.n_gate += 1
        await self.sched.gate((self.n_gate, k, what))
        if self.c['files'][k].get('fail') == n:
            raise Injected(f'file {k} op {n} ({what})')


def _file_of(url):
    return int(url.rsplit('/', 1)[1])


class _Readable:
    def __init__(self, run, k, data, on_exit=None):
        self.run, self.k, self.data, self.pos, self.on_exit = run, k, data, 0, on_exit

    async def read(self, n=-1):
        await self.run.gate(self.k, 'read')
        b = self.data[self.pos:] if n < 0 else self.data[self.pos:self.pos + n]
        self.pos += len(b)
        return b

    async def readexactly(self, n):
        await self.run.gate(self.k, 'readexactly')
        b = self.data[self.pos:self.pos + n]
        self.pos += len(b)
        return b

    async def __aenter__(self):
        return self

    async def __aexit__(self, *a):
        if self.on_exit:
            self.on_exit()


class _Writable:
    def __init__(self, run, k, sink, on_exit=None):
        self.run, self.k, self.sink, self.on_exit = run, k, sink, on_exit

    async def write(self, b):
        await self.run.gate(self.k, 'write')
        self.sink.append(bytes(b))
        return len(b)

    async def __aenter__(self):
        return self

    async def __aexit__(self, *a):
        try:
            await self.run.gate(self.k, 'close')
        finally:
            if self.on_exit:
                self.on_exit()


class _MPC:
    def __init__(self, run, k):
        self.run, self.k = run, k

    async def create_part(self, number, start, size_hint=None):
        run, k = self.run, self.k
        run.mark(k, ('part', number), run.c['buf'])         # `_copy_part` holds Copier.BUFFER_SIZE
        try:
            await run.gate(k, 'create_part')
        except BaseException:
            run.unmark(k, ('part', number))
            raise
        return _Writable(run, k, [], on_exit=lambda: run.unmark(k, ('part', number)))

    async def __aenter__(self):
        return self

    async def __aexit__(self, *a):
        return False


class MemFS:
    """the handful of AsyncFS methods the copier's file paths call, in memory, every one behind a gate"""

    def __init__(self, run):
        self.run = run

    def copy_part_size(self, url):
        return self.run.c['part']

    def _data(self, k):
        n = self.run.c['files'][k]['size']
        return bytes((k * 31 + i * 7 + 1) % 251 for i in range(n))

    async def open(self, url):
        run, k = self.run, _file_of(url)
        w = min(run.c['buf'], run.c['files'][k]['size'])    # `_copy_file` holds min(BUFFER_SIZE, size)
        run.mark(k, 'file', w)
        try:
            await run.gate(k, 'open')
        except BaseException:
            run.unmark(k, 'file')
            raise
        return _Readable(run, k, self._data(k), on_exit=lambda: run.unmark(k, 'file'))

    async def open_from(self, url, start, *, length=None):
        k = _file_of(url)
        await self.run.gate(k, 'open_from')
        d = self._data(k)
        return _Readable(self.run, k, d[start:] if length is None else d[start:start + length])

    async def create(self, url, *, retry_writes=True):
        k = _file_of(url)
        await self.run.gate(k, 'create')
        return _Writable(self.run, k, [])

    async def makedirs(self, url, exist_ok=False):
        return None

    async def multi_part_create(self, sema, url, num_parts):
        k = _file_of(url)
        await self.run.gate(k, 'multi_part_create')
        return _MPC(self.run, k)


def observe(copier_mod, c):
    """run one case on the real copier; returns a dict of observations (JSON-serialisable)"""
    sched = aloop.Sched()
    sched.loop.set_exception_handler(lambda loop, ctx: None)
    saved_buf = copier_mod.Copier.BUFFER_SIZE
    rng = random.Random(c['sched'])
    run = _Run(c, sched, rng)
    obs = {'cancel_before_first_fs_call': 0, 'cancel_later': 0, 'stuck': False}
    try:
        copier_mod.Copier.BUFFER_SIZE = c['buf']
        xfer = copier_mod.WeightedSemaphore(c['budget'])
        fs = MemFS(run)
        sema = asyncio.Semaphore(50)
        tasks = {}

        async def one_file(k):
            f = c['files'][k]
            src, dest = f's/{k}', f'd/{k}'
            sc = copier_mod.SourceCopier(fs, xfer, src, dest, copier_mod.Transfer.DEST_IS_TARGET, None)
            rep = copier_mod.SourceReport(src)
            rep.start_files(1)
            rep.start_bytes(f['size'])
            async with sema:
                await sc._copy_file_multi_part(sema, rep, src, _Stat(f['size']), dest, bool(c.get('return_exceptions')))

        for k, f in enumerate(c['files']):
            def on_suspend(n, k=k, j=f.get('cancel', 0)):
                if j and n == j:
                    obs['cancel_later' if k in run.first_call else 'cancel_before_first_fs_call'] += 1
                    sched.loop.call_soon(tasks[k].cancel)
            tasks[k] = sched.spawn(('file', k), aloop.stepped(one_file(k), on_suspend), settle=False)
            sched.settle()
            if xfer.value < 0:
                run.note(f'semaphore value {xfer.value} < 0')
        for _ in range(20000):
            if all(t.done() for t in tasks.values()):
                break
            pending = sorted(g for g, fut in sched.gates.items() if not fut.done())
            if not pending:
                sched.advance(1.0)
                if not all(t.done() for t in tasks.values()) and not any(not fut.done() for fut in sched.gates.values()):
                    obs['stuck'] = True
                    break
                continue
            sched.open(rng.choice(pending))
            if xfer.value < 0:
                run.note(f'semaphore value {xfer.value} < 0')
        else:
            raise RuntimeError('copier did not finish within 20000 gate openings')
        obs['unfinished'] = sorted(k for k, t in tasks.items() if not t.done())
        obs['in_flight_at_rest'] = sorted(map(str, run.holding))
        obs['value'], obs['max'] = xfer.value, xfer.max
        obs['peak'] = run.peak
        obs['problem'] = run.problem
        outcome = []
        for k, t in sorted(tasks.items()):
            if not t.done():
                outcome.append('pending')
            elif t.cancelled():
                outcome.append('cancelled')
            elif t.exception() is not None:
                e = t.exception()
                if not isinstance(e, Injected):
                    raise e
                outcome.append('failed')
            else:
                outcome.append('ok')
        obs['outcome'] = outcome
        return obs
    finally:
        copier_mod.Copier.BUFFER_SIZE = saved_buf
        try:
            for _ in range(5):
                for fut in sched.gates.values():
                    if not fut.done():
                        fut.set_result(None)
                sched.loop.settle()
        except Exception:
            pass
        sched.close()


def check(c, obs):
    """the property on the observations: None or a message"""
    if obs.get('problem'):
        return 'copier: ' + obs['problem']
    if obs['stuck']:
        return (f"copier: transfers {obs['unfinished']} wait for a buffer for ever although nothing is in flight (semaphore value "
                f"{obs['value']} of {obs['max']}): capacity was lost")
    if obs['in_flight_at_rest']:
        return f"copier: every transfer finished but buffers {obs['in_flight_at_rest']} are still accounted in flight"
    if obs['value'] != obs['max']:
        return (f"copier: every transfer finished ({', '.join(obs['outcome'])}) but the semaphore holds value {obs['value']} != max "
                f"{obs['max']}: a weight was returned that was never granted, or a granted weight was not returned")
    return None


def random_case(rng):
    buf = rng.choice([2, 3, 4])
    part = rng.choice([buf, 2 * buf, 2 * buf + 1])
    budget = buf * rng.choice([1, 1, 2, 3])
    files = []
    for _ in range(rng.choice([2, 3, 4, 5])):
        r = rng.random()
        size = (rng.randint(0, part) if r < 0.6 else rng.randint(part + 1, 3 * part + 1))
        f = {'size': size}
        r = rng.random()
        if r < 0.35:
            f['cancel'] = rng.choice([1, 1, 2, 3, 4, 6])
        elif r < 0.5:
            f['fail'] = rng.choice([1, 2, 3, 4, 6])
        files.append(f)
    return {'kind': 'copier', 'buf': buf, 'part': part, 'budget': budget, 'files': files, 'sched': rng.randrange(1 << 30),
            'return_exceptions': rng.random() < 0.3}


def exhaustive(budget_bufs=1, buf=2, n_files=3):
    """n small single-part files (size buf) sharing `budget_bufs` buffers: every assignment of none / cancel at suspension 1..3 /
    failure at fs op 1..2 to each file, two gate schedules each"""
    out = []
    faults = [{}] + [{'cancel': j} for j in (1, 2, 3)] + [{'fail': j} for j in (1, 2)]

    def rec(files):
        if len(files) == n_files:
            for sch in (1, 2):
                out.append({'kind': 'copier', 'buf': buf, 'part': 2 * buf, 'budget': budget_bufs * buf,
                            'files': [dict(f) for f in files], 'sched': sch, 'return_exceptions': False})
            return
        for f in faults:
            rec(files + [{'size': buf, **f}])
    rec([])
    return out

"""In-memory object store standing in for the cloud SDK / HTTP layer of the C23 check (TRUSTED, listed in C23.trusted).

What is faked is only what lies *below* the repo code:
* GCS JSON API over HTTP:  a stand-in for `hailtop.httpx.ClientSession` (BELOW the real `Session` + credentials layer) whose GET `…/b/<bucket>/o/<name>?alt=media` honours a single `Range: bytes=a-[b]` header
  with RFC 7233 semantics (a >= size -> 416; b clipped to size-1; b < a -> header ignored, 200 with the full entity);
  the response body is a REAL `aiohttp.StreamReader`, fed in chunks.  Object metadata GET -> 200/404; list objects -> items/prefixes.
* S3 (boto3 client):       `get_object(Bucket, Key, Range=…)` with the same byte-range semantics, unsatisfiable range -> ClientError
  `InvalidRange` (S3 answers 416 InvalidRange, also for any range on an empty object); missing key -> `exceptions.NoSuchKey`;
  Body = a blocking file-like object whose `read(n)` may return short (chunked like urllib3); `head_object`, `list_objects_v2`.
* Azure (azure-storage-blob aio): `BlobClient.download_blob(offset=None, length=None)` -> downloader with `readall()` and `chunks()`;
  offset given and offset >= size -> HttpResponseError(status_code=416) (the SDK only swallows 416 when *no* offset was given:
  "Get range will fail on an empty file"); `get_blob_properties`, `exists`, `ContainerClient.walk_blobs`.
Every request that reaches the store is appended to `store.log` so the check can compare what the repo code asked for.
"""
import asyncio
import re
import urllib.parse

import aiohttp


class Store:
    def __init__(self):
        self.objects = {}   # name -> bytes   (one bucket / container)
        self.log = []
        self.auth_seen = []
        self.chunk = 0      # 0 = deliver bodies in one piece, k>0 = pieces of k bytes

    def pieces(self, data: bytes):
        if self.chunk <= 0 or len(data) == 0:
            return [data] if data else []
        return [data[i:i + self.chunk] for i in range(0, len(data), self.chunk)]


RANGE_RE = re.compile(r'bytes=(\d+)-(\d*)\Z')


def serve_range(data: bytes, header):
    """RFC 7233 §2.1/§4.4 single byte-range-spec.  -> (status, body)"""
    if header is None:
        return 200, data
    m = RANGE_RE.match(header)
    if not m:
        return 200, data            # unparseable Range header is ignored
    a = int(m.group(1))
    b = int(m.group(2)) if m.group(2) != '' else None
    if b is not None and b < a:
        return 200, data            # syntactically invalid byte-range-spec: ignored
    if a >= len(data):
        return 416, b''
    if b is None or b >= len(data):
        b = len(data) - 1
    return 206, data[a:b + 1]


# ---------------------------------------------------------------------------------------------------- GCS


class _FakeProtocol:
    _reading_paused = False

    def pause_reading(self, *a, **k):
        pass

    def resume_reading(self, *a, **k):
        pass


class FakeGCSResponse:
    def __init__(self, status, body_pieces, headers=None, json_body=None):
        self.status = status
        self.headers = headers or {}
        self._json = json_body
        self.content = aiohttp.StreamReader(_FakeProtocol(), 2 ** 16, loop=asyncio.get_event_loop())
        for p in body_pieces:
            self.content.feed_data(p)
        self.content.feed_eof()
        self.closed = False

    def close(self):
        self.closed = True

    def release(self):
        self.closed = True

    async def json(self):
        return self._json

    async def __aenter__(self):
        return self

    async def __aexit__(self, *a):
        self.close()


def make_gcs_http_session(store: Store, client_response_error):
    """The fake sits at the HTTP layer: it stands in for `hailtop.httpx.ClientSession` *below* the real
    `hailtop.aiocloud.common.session.Session` (credentials, auth headers, 401 -> refresh -> retry), so what it sees is what would go
    on the wire.  A request carrying `Authorization: Bearer stale` is answered 401 (expired token); anything else is served."""

    class FakeHttpSession:
        async def request(self, method, url, **kwargs):
            u = urllib.parse.urlparse(url)
            params = dict(kwargs.get('params') or {})
            headers = dict(kwargs.get('headers') or {})
            m = re.match(r'/storage/v1/b/([^/]+)/o(?:/(.*))?\Z', u.path)
            assert method == 'GET' and m, (method, url)
            name = urllib.parse.unquote(m.group(2)) if m.group(2) else None

            def fail(status):
                import types
                info = types.SimpleNamespace(real_url=url, url=url, method=method, headers={})
                raise client_response_error(info, (), status=status, message=str(status), headers={}, body='')

            store.auth_seen.append(headers.get('Authorization'))
            if headers.get('Authorization') == 'Bearer stale':
                fail(401)
            if name is None:                      # list objects
                prefix = params.get('prefix', '')
                delim = params.get('delimiter')
                items, prefixes = [], set()
                for k in sorted(store.objects):
                    if not k.startswith(prefix):
                        continue
                    rest = k[len(prefix):]
                    if delim and delim in rest:
                        prefixes.add(prefix + rest[:rest.index(delim) + 1])
                    else:
                        items.append({'name': k, 'size': str(len(store.objects[k]))})
                page = {}
                if items:
                    page['items'] = items
                if prefixes:
                    page['prefixes'] = sorted(prefixes)
                return FakeGCSResponse(200, [], json_body=page)
            if params.get('alt') == 'media':
                rng = headers.get('Range')
                store.log.append(('gcs-get', name, rng))
                if name not in store.objects:
                    fail(404)
                status, body = serve_range(store.objects[name], rng)
                if status == 416:
                    fail(416)
                return FakeGCSResponse(status, store.pieces(body))
            if name not in store.objects:
                fail(404)
            return FakeGCSResponse(200, [], json_body={'name': name, 'size': str(len(store.objects[name]))})

        async def close(self):
            return None

    return FakeHttpSession()


def make_token_credentials(cloud_credentials_cls, refresh: bool):
    """a token credential (stand-in for a service-account / user credential): `refresh=False` always hands out a valid token;
    `refresh=True` hands out an *expired* token on every odd call, so each request is first answered 401 and the real Session has
    to fetch fresh headers and rebuild the request for a second attempt"""
    import time

    class TokenCredentials(cloud_credentials_cls):
        def __init__(self):
            self.calls = 0

        async def auth_headers_with_expiration(self):
            self.calls += 1
            if refresh and self.calls % 2 == 1:
                return {'Authorization': 'Bearer stale'}, time.time() - 60
            return {'Authorization': 'Bearer fresh'}, None

        async def access_token_with_expiration(self):
            return 'fresh', None

        async def close(self):
            return None

    return TokenCredentials()


# ---------------------------------------------------------------------------------------------------- S3


class FakeStreamingBody:
    """blocking file-like; read(n) returns at most one delivered piece's worth when chunking is on (short reads are legal for
    BinaryIO.read), read()/read(-1) returns everything left."""

    def __init__(self, pieces):
        self._pieces = [bytes(p) for p in pieces]
        self.closed = False

    def read(self, n=-1):
        if n is None or n < 0:
            out = b''.join(self._pieces)
            self._pieces = []
            return out
        if n == 0 or not self._pieces:
            return b''
        head = self._pieces[0]
        if len(head) <= n:
            self._pieces.pop(0)
            return head
        self._pieces[0] = head[n:]
        return head[:n]

    def close(self):
        self.closed = True


def make_s3_client(store: Store, client_error_cls):
    class NoSuchKey(Exception):
        pass

    def client_error(code, status):
        e = client_error_cls()
        e.response = {'Error': {'Code': code}, 'ResponseMetadata': {'HTTPStatusCode': status}}
        return e

    class Exceptions:
        pass

    Exceptions.NoSuchKey = NoSuchKey

    class FakeS3:
        exceptions = Exceptions

        def get_object(self, Bucket, Key, Range=None):
            store.log.append(('s3-get', Key, Range))
            if Key not in store.objects:
                raise NoSuchKey(Key)
            status, body = serve_range(store.objects[Key], Range)
            if status == 416:
                raise client_error('InvalidRange', 416)
            return {'Body': FakeStreamingBody(store.pieces(body)), 'ContentLength': len(body)}

        def head_object(self, Bucket, Key):
            if Key not in store.objects:
                raise client_error('404', 404)
            return {'ContentLength': len(store.objects[Key])}

        def list_objects_v2(self, Bucket, Prefix='', Delimiter=None, **kw):
            contents = [{'Key': k, 'Size': len(v)} for k, v in sorted(store.objects.items()) if k.startswith(Prefix)]
            page = {'IsTruncated': False, 'KeyCount': len(contents)}
            if contents:
                page['Contents'] = contents
            return page

    return FakeS3()


# ---------------------------------------------------------------------------------------------------- Azure


def make_azure_service_client(store: Store, exc_mod):
    """exc_mod = the `azure.core.exceptions` module object the repo module sees (stub classes: only identity matters)"""

    def http_error(status):
        e = exc_mod.HttpResponseError()
        e.status_code = status
        return e

    class FakeDownloader:
        def __init__(self, data):
            self._data = data
            self.size = len(data)

        async def readall(self):
            return self._data

        def chunks(self):
            pieces = store.pieces(self._data)

            async def it():
                for p in pieces:
                    yield p
            return it()

    class FakeBlobClient:
        def __init__(self, name):
            self.name = name

        async def download_blob(self, offset=None, length=None, **kw):
            store.log.append(('az-dl', self.name, offset, length))
            if self.name not in store.objects:
                raise exc_mod.ResourceNotFoundError()
            data = store.objects[self.name]
            if offset is None:
                assert length is None, 'azure-storage-blob: offset must be given when length is'
                return FakeDownloader(data)
            if offset >= len(data):
                raise http_error(416)
            if length is None:
                return FakeDownloader(data[offset:])
            return FakeDownloader(data[offset:offset + length])

        async def get_blob_properties(self, **kw):
            if self.name not in store.objects:
                raise exc_mod.ResourceNotFoundError()

            class Props:
                pass
            p = Props()
            p.size = len(store.objects[self.name])
            p.name = self.name
            return p

        async def exists(self, **kw):
            return self.name in store.objects

    class FakeContainerClient:
        def walk_blobs(self, name_starts_with='', include=None, delimiter='/'):
            names = [k for k in sorted(store.objects) if k.startswith(name_starts_with)]

            async def it():
                for k in names:
                    yield k
            return it()

    class FakeBlobServiceClient:
        def __init__(self, *a, **k):
            pass

        def get_blob_client(self, container, path):
            return FakeBlobClient(path)

        def get_container_client(self, container):
            return FakeContainerClient()

    return FakeBlobServiceClient

"""C38 GVCF/VDS combiner merges every input exactly once.

Part A: real `hail.vds.combiner.combine.calculate_even_genome_partitioning` on a real `ReferenceGenome` (built with
`_builtin=True`, so no backend) and the real `hl.Locus`/`hl.Interval` vs `Combiner.evenPartition`.
Part B: real `VariantDatasetCombiner` (`__init__`, `step`, `_step_gvcfs`, `_step_vdses`, `save`, `load`, `Encoder`/`Decoder`)
with the module's `hl` namespace and engine helpers replaced by a recorder (no engine) vs `Combiner.step/reload`.
"""
import io
import json
import types
from math import floor, log

from .. import loader
from ..framework import Prop


def ilog(b, n):
    k = 0
    while n >= b:
        n //= b
        k += 1
    return k


# --------------------------------------------------------------------------------------------------
# the recording stand-in for the engine (everything `variant_dataset_combiner.py` touches through `hl.*`)


class Lit:
    def __init__(self, value, original=None):
        self.value = value
        self.original = value if original is None else original

    def map(self, f):
        return Lit([f(x) for x in self.value], original=self.original)

    def __getitem__(self, i):
        return LitIndex(self)


class LitIndex:
    def __init__(self, lit):
        self.lit = lit
        self.sampleIDs = [self]   # header.sampleIDs[0]


class Collect:
    def __init__(self, expr):
        self.expr = expr


class FakeTable:
    def __init__(self, sources=None, ids=None):
        self.sources = sources
        self.ids = ids
        self.globals = {}
        self.idx = 'idx'
        self.sample_id = None

    def _unlocalize_entries(self, *a, **k):
        return self

    def _key_rows_by_assert_sorted(self, *a, **k):
        return self

    def annotate(self, **kw):
        t = FakeTable(self.sources, self.ids)
        t.sample_id = kw.get('sample_id')
        return t

    def aggregate(self, agg):
        # sample ids read from the headers of the GVCFs of `vcfs_lit`
        return ['hdr:' + p for p in agg.expr.lit.value]


class InjectedFault(Exception):
    """an engine call fails (I/O error, preempted worker, ...)"""


class InjectedInterrupt(KeyboardInterrupt):
    """Ctrl-C while an engine call is running"""


class HarnessAbort(BaseException):
    """the run keeps issuing engine calls without ever finishing"""


class Recorder:
    ops = 0            # engine calls of the current run() attempt
    fault_at = 0       # the fault_at-th engine call of the attempt raises (0 = never)
    fault_kind = 'exc'

    def tick(self):
        self.ops += 1
        if self.ops > 5000:
            raise HarnessAbort()
        if self.ops == self.fault_at:
            raise (InjectedInterrupt() if self.fault_kind == 'int' else InjectedFault(f'engine call {self.ops} failed'))

    def __init__(self):
        self.datasets = {}     # path -> (leaves, n)
        self.writes = {}       # path -> number of writes
        self.reads = {}        # path -> number of reads by a merge
        self.finals = []       # (leaves, n) written to the output path
        self.errors = []
        self.gvcf_merges = []  # (gvcf paths, sample ids)
        self.max_len = []


class FakeVDS:
    ref_block_max_length_field = 'ref_block_max_length'
    rec: Recorder = None
    output_path = None

    def __init__(self, reference_data, variant_data, leaves=None, n=None):
        self.reference_data = reference_data
        self.variant_data = variant_data
        if leaves is None:
            if reference_data.sources != variant_data.sources:
                FakeVDS.rec.errors.append(f'reference table built from {reference_data.sources}, variant table from {variant_data.sources}')
            leaves = list(reference_data.sources)
            n = len(leaves)
            FakeVDS.rec.gvcf_merges.append((list(leaves), list(reference_data.ids) if reference_data.ids is not None else None))
            if reference_data.ids != variant_data.ids:
                FakeVDS.rec.errors.append('reference and variant tables carry different sample ids')
        self.leaves = leaves
        self.n = n

    @staticmethod
    def _reference_path(base):
        return base + '/reference_data'

    @staticmethod
    def _variants_path(base):
        return base + '/variant_data'

    def write(self, path, **kw):
        FakeVDS.rec.tick()
        record_write(FakeVDS.rec, path, self)


def record_write(rec, path, vds):
    rec.writes[path] = rec.writes.get(path, 0) + 1
    if path == FakeVDS.output_path:
        rec.finals.append((list(vds.leaves), vds.n))
        return
    if path in rec.datasets and rec.reads.get(path, 0) == 0:
        rec.errors.append(f'{path} overwritten before it was merged')
    rec.datasets[path] = (list(vds.leaves), vds.n)
    rec.reads[path] = 0


class FakeFS:
    def __init__(self):
        self.files = {}

    def exists(self, p):
        return p in self.files

    def copy(self, a, b):
        self.files[b] = self.files[a]

    def remove(self, p):
        del self.files[p]

    def open(self, p, mode='r'):
        fs = self
        if 'w' in mode:
            class W(io.StringIO):
                def close(s):
                    fs.files[p] = s.getvalue()
                    super().close()

                def __exit__(s, *a):
                    s.close()
                    return False
            return W()
        return io.StringIO(self.files[p])


class LenList(list):
    """stand-in for a very long list of import intervals: holds a few real intervals, reports `n` as its length
    (the combiner only takes len() of the list for its merge-task limit; iteration sees the real elements)"""
    n = 0

    def __len__(self):
        return self.n


class FastLocus:
    """light stand-in for hl.Locus in the dense (length, size) sweep of calc_parts: the real classes cost ~0.2 ms per interval"""
    __slots__ = ('contig', 'position', 'reference_genome')

    def __init__(self, contig, position, reference_genome=None):
        self.contig, self.position, self.reference_genome = contig, position, reference_genome


class FastInterval:
    __slots__ = ('start', 'end', 'includes_start', 'includes_end')

    def __init__(self, start, end, includes_start=True, includes_end=False):
        self.start, self.end, self.includes_start, self.includes_end = start, end, includes_start, includes_end

    def __repr__(self):
        return f'{"[" if self.includes_start else "("}{self.start.contig}:{self.start.position}-{self.end.position}{"]" if self.includes_end else ")"}'


class FakeType:
    def __init__(self, *a, **k):
        pass

    def _convert_to_json(self, x):
        assert x == []
        return []

    def _convert_from_json(self, x):
        assert x == []
        return []


class FakeTM:
    """stand-in for hail.expr.tmatrix on the save/load path (Encoder: `o.to_dict()`, Decoder: `tmatrix._from_json`)"""

    def __init__(self, tag):
        self.tag = tag

    def to_dict(self):
        return {'tm': self.tag}

    @staticmethod
    def _from_json(d):
        return FakeTM(d['tm'])

    def __eq__(self, o):
        return isinstance(o, FakeTM) and o.tag == self.tag

    def __hash__(self):
        return hash(self.tag)


class FakeRG:
    name = 'GRCh38'

    def __str__(self):
        return 'GRCh38'


def make_fake_hl(get_rec, fs, get_rg, real_hl):
    hl = types.SimpleNamespace()
    hl.literal = lambda x: Lit(x)
    def _eval(x):
        get_rec().tick()
        return x
    hl.eval = _eval
    hl.get_vcf_header_info = lambda x: x if isinstance(x, LitIndex) else ('header', x)
    hl.rbind = lambda x, f: f(x)
    hl.enumerate = lambda lit: lit
    hl.Struct = real_hl.Struct
    hl.Interval = real_hl.Interval      # the real value and type classes carry the import intervals through save/load
    hl.Locus = real_hl.Locus
    hl.struct = lambda **kw: types.SimpleNamespace(**kw)
    hl.tstruct = real_hl.tstruct
    hl.tlocus = real_hl.tlocus
    hl.tarray = real_hl.tarray
    hl.tinterval = real_hl.tinterval
    hl.agg = types.SimpleNamespace(collect=lambda e: Collect(e))
    hl.utils = types.SimpleNamespace(range_table=lambda n, n_partitions=None: FakeTable())
    hl.import_gvcf_interval = lambda *a, **k: ('gvcf-stream', a[0], a[1])

    def zip_join(enumerated, f, key, joiner):
        f(('i', 'p'))      # exercise the producer lambda once
        return ('zip', list(enumerated.original))
    hl._zip_join_producers = zip_join

    class _Table:
        @staticmethod
        def _generate(contexts, partitions, rowfn, globals):
            interval = types.SimpleNamespace(contig='c', start=1, end=2)
            z = rowfn(interval, globals)
            return FakeTable(sources=z[1], ids=globals.g.original)
    hl.Table = _Table

    def read_vds(path, **kw):
        rec = get_rec()
        rec.tick()
        if path not in rec.datasets:
            rec.errors.append(f'read of {path}, which was never written')
            return FakeVDS(FakeTable(), FakeTable(), leaves=[], n=0)
        leaves, n = rec.datasets[path]
        if kw.get('intervals') is not None:   # the merge read (the first read only sizes the partitioning)
            rec.reads[path] = rec.reads.get(path, 0) + 1
        return FakeVDS(FakeTable(), FakeTable(), leaves=list(leaves), n=n)

    def write_variant_datasets(vdss, paths, **kw):
        rec = get_rec()
        if len(vdss) != len(paths):
            rec.errors.append('write_variant_datasets: lengths differ')
        for v, p in zip(vdss, paths):
            rec.tick()      # the datasets are written one after the other: a failure may leave some of them behind
            record_write(rec, p, v)

    hl.vds = types.SimpleNamespace(read_vds=read_vds, write_variant_datasets=write_variant_datasets,
                                   store_ref_block_max_length=lambda p: get_rec().max_len.append(p))
    hl.current_backend = lambda: types.SimpleNamespace(fs=fs)
    hl.get_reference = lambda name: get_rg()
    hl._get_flags = lambda *a: {}
    hl._set_flags = lambda **k: None
    return hl


# --------------------------------------------------------------------------------------------------


class C38(Prop):
    id = 'C38'
    title = 'GVCF/VDS combiner merges every input exactly once'
    lean_props = ['HailVerif.Props.C38']
    driver = 'Driver/C38.lean'
    engine = 'E3-pure'
    design_ref = 'DESIGN.md §4 C38'
    technique = ('Lean 4 theorems about executable models of calc_parts and of the combiner plan (step/save/load) + differential '
                 'correspondence with the real functions, engine I/O replaced by a recorder')
    level_text = ('Proved: (A) for every contig length L >= 1 and size >= 1 the intervals of calc_parts start at 1, are consecutive without gap or '
                  'overlap, end at L, cover every base exactly once and none is longer than size; refusal iff size = 0 or L = 0. (B) for every '
                  'floor-log function, input list, branch factor >= 2, batch size >= 1 and every stop/resume schedule: each step preserves the '
                  'multiset of inputs reachable from the plan and the sample total, strictly decreases 2*#gvcfs + #datasets, and after that many '
                  'steps the plan is finished with exactly one dataset written, built from exactly the given inputs (none written when there are '
                  'none); load(save(s)) keeps gvcfs/names/branch factor/batch size and the datasets as a multiset, and is the identity on the bin '
                  'structure when every dataset is in its natural bin; every GVCF step consumes >= 1 input under the constructor guard and the public '
                  'gvcf_batch_size setter keeps that guard for every interval count (gvcf_step_consumes, setter_keeps_guard); the import intervals come back from load(save(.)) unchanged, flags included '
                  '(save_load_intervals), so the resumed partitioning still covers every base exactly once (resumed_partition_covers).')
    level_note = ('save_load_id holds only as save_load_id_partial: _step_vdses bumps new_bin to original_bin+1 and the bump is not saved, so a '
                  'resumed run may group later merges differently (witness in Props/C38.lean); the exactly-once property is proved for every resume '
                  'schedule regardless. Partial: datasets are abstracted to the inputs they are built from (the engine merge is assumed to contain '
                  'exactly what it is given); temp-path uniqueness (uuid, job id) is checked by the recorder, not modelled; models are tied to the '
                  'code by the correspondence cases only.')
    budget = {'quick': 700, 'thorough': 12000}
    search_budget = {'quick': 2500, 'thorough': 25000}
    rule = ('three case kinds. crash: the real run() loop with failures inside steps - in attempt a the k_a-th engine call (header read, dataset read, '
            'merge, each dataset write) raises an exception or Ctrl-C, the combiner is reloaded from its save_path and run() is called again; judged on the final dataset of the resumed run. part: (reference name, 25 contig lengths, interval size) through the real calculate_even_genome_partitioning; '
            'lengths are boundary-directed (multiples of size, +-1, 1, size, size+1). plan: (gvcf count 0-60, sample names or not, input VDS '
            'sample counts incl. exact powers of the branch factor, branch factor 2-12, gvcf batch size 1-20, optional import intervals = the real '
            'partitioning of a small 25-contig genome carried through every save->load, optionally reported at a length around the merge-task '
            'limit (147075 ... 300000 import intervals; a stand-in list: only len() is read), optional calls of the public gvcf_batch_size '
            'setter between steps, resume schedule none/every step/'
            'random) through the real VariantDatasetCombiner, state dumped after every step and every save->load. Non-trivial = partition with '
            '>= 2 intervals on some contig, or plan with >= 2 merge steps; distinct by case content')
    trusted = ['harness/props/c38.py recorder standing in for hl.* engine calls inside variant_dataset_combiner.py (reads/merges/writes are '
               'recorded, nothing is computed); FakeTM stands in for tmatrix on the JSON save/load path',
               'harness/shims/decorator.py, deprecated.py; parsimonious inert stub; numpy from /verif/.deps']
    assumptions = ['math.ceil(L / size) on floats equals the exact ceiling for contig lengths < 2^53 (argument in Props/C38.lean, compared on every case)',
                   'floor(log(n, branch_factor)) is whatever the float computation yields: the theorems hold for every such function; the driver is '
                   'given the measured values', 'engine merges produce a dataset containing exactly the inputs they were given (engine not run)']

    # ------------------------------------------------------------------------------------------
    def setup(self, repo):
        loader.install(repo, extra_stubs=('parsimonious',))
        import hail as hl
        from hail.genetics.reference_genome import ReferenceGenome
        from hail.vds.combiner import combine as cb
        from hail.vds.combiner import variant_dataset_combiner as vdc
        self.hl, self.cb, self.vdc, self.ReferenceGenome = hl, cb, vdc, ReferenceGenome
        self.rec = Recorder()
        self.fs = FakeFS()
        self.rg = None
        vdc.hl = make_fake_hl(lambda: self.rec, self.fs, lambda: self.rg, hl)
        vdc.VariantDataset = FakeVDS
        vdc.tmatrix = FakeTM
        vdc.combine = lambda t: t
        vdc.combine_r = lambda t, **k: t
        vdc.make_reference_stream = lambda s, *a: s
        vdc.make_variant_stream = lambda s, *a: s
        vdc.calculate_new_intervals = lambda ht, n, path: ([], None)
        def combine_vdses(vdss):
            self.rec.tick()
            return FakeVDS(FakeTable(), FakeTable(), leaves=[x for v in vdss for x in v.leaves], n=sum(v.n for v in vdss))
        vdc.combine_variant_datasets = combine_vdses
        # instrumentation: observe every completed step() of a run() loop (the real method is called unchanged)
        real_step = vdc.VariantDatasetCombiner.step
        prop = self
        self.trace_active = False

        def observed_step(comb):
            was_finished = comb.finished
            real_step(comb)
            if prop.trace_active and not was_finished:
                prop.trace.append('step')
                prop.trace_lines.append(prop._dump(comb))
        vdc.VariantDatasetCombiner.step = observed_step
        self.crash_cache = {}
        vdc.info = lambda *a, **k: None
        vdc.warning = lambda *a, **k: None
        self.route = ('whole-package import of hail under harness/loader.py; combine.py uses the real hl.Locus/hl.Interval/ReferenceGenome(_builtin=True); '
                      'variant_dataset_combiner.py runs with its module globals hl/VariantDataset/tmatrix/combine*/info replaced by the recorder')

    def extra_coverage(self):
        return {'import_route': getattr(self, 'route', None), 'dense_partition_sweep': getattr(self, 'sweep_note', None)}

    # ---- dense sweep of the partitioning arithmetic (oracle only; hl.Interval/hl.Locus replaced by light stand-ins) -----------------
    def _sweep_pairs(self, tier, rng):
        from math import isqrt
        top = 1200
        for L in range(1, top + 1):
            if tier == 'quick':
                # every size for short contigs; for longer ones the sizes that give at most ~32 intervals, up to 2*sqrt(L)+6
                lo = 1 if L <= 100 else max(1, L // 32)
                hi = min(L + 1, 2 * isqrt(L) + 6)
            else:
                lo, hi = 1, min(L + 1, max(2 * isqrt(L) + 6, 300))
            for size in range(lo, hi + 1):
                yield L, size
        # real contig lengths: chrM with every small size; the others around sqrt(length) and at a few other sizes
        for L in [16569, 16571]:
            for size in (range(40, 400) if tier == 'quick' else range(1, 2001)):
                yield L, size
        real = [248956422, 57227415, 46709983] if tier == 'quick' else [248956422, 242193529, 57227415, 156040895, 46709983, 50818468]
        for L in real:
            r = isqrt(L)
            sizes = {2 * r, 3 * r, 10 * r, 1_200_000, 60_000_000, L, L - 1, L + 1, (L + 1) // 2}
            if tier != 'quick':
                sizes |= {r, r + 1, r - 1, r // 2}
            for _ in range(3 if tier == 'quick' else 40):
                sizes.add(rng.randint(2 * r if tier == 'quick' else max(1, r // 4), 50 * r))
            for size in sorted(sizes):
                yield L, size

    def extra_checks(self, repo, tier, rng):
        cb = self.cb
        real_hl = cb.hl
        by_size = {}
        n_pairs = 0
        for L, size in self._sweep_pairs(tier, rng):
            by_size.setdefault(size, []).append(L)
            n_pairs += 1
        failures = []
        n_iv = 0
        contigs = self.CONTIGS38
        cb.hl = types.SimpleNamespace(Interval=FastInterval, Locus=FastLocus, utils=real_hl.utils)
        try:
            for size, ls in by_size.items():
                for k in range(0, len(ls), 25):
                    chunk = ls[k:k + 25]
                    chunk = chunk + [1] * (25 - len(chunk))
                    rg = self.ReferenceGenome('GRCh38', contigs, dict(zip(contigs, chunk)), _builtin=True)
                    ivs = cb.calculate_even_genome_partitioning(rg, size)
                    n_iv += len(ivs)
                    m = self._tiling_problem(ivs, contigs, chunk, size, rg)
                    if m:
                        failures.append(({'kind': 'part', 'name': 'GRCh38', 'lengths': chunk, 'size': size}, m))
                        if len(failures) >= 3:
                            raise StopIteration
        except StopIteration:
            pass
        finally:
            cb.hl = real_hl
        self.sweep_note = (f'{n_pairs} (contig length, interval size) pairs: lengths 1..1200 x sizes up to max(2*sqrt(L)+6'
                           f'{", 300" if tier != "quick" else ""}) (quick: sizes giving <= ~32 intervals for L > 100), chrM x small sizes, '
                           f'real contigs around multiples of sqrt(length); '
                           f'{n_iv} intervals checked by the tiling/size oracle (light Interval/Locus stand-ins)')
        return failures

    # ------------------------------------------------------------------------------------------
    CONTIGS38 = [f'chr{i}' for i in range(1, 23)] + ['chrX', 'chrY', 'chrM']
    CONTIGS37 = [f'{i}' for i in range(1, 23)] + ['X', 'Y', 'MT']

    def _part_case(self, rng):
        size = rng.choice([1, 2, 3, 5, 7, 10, 64, 1000, 1_200_000, 60_000_000, rng.randint(1, 50), rng.randint(1, 5000)])
        if rng.random() < 0.02:
            size = 0
        lens = []
        s = max(size, 1)
        for _ in range(25):
            r = rng.random()
            m = rng.randint(1, 12)
            if r < 0.2:
                v = m * s
            elif r < 0.35:
                v = m * s + 1
            elif r < 0.5:
                v = max(1, m * s - 1)
            elif r < 0.6:
                v = rng.choice([1, 2, s, s + 1, max(1, s - 1)])
            elif r < 0.7 and size >= 1_200_000:
                v = rng.choice([248956422, 242193529, 57227415, 16569, 156040895])   # GRCh38 chr1, chr2, chrY, chrM, chrX
            else:
                v = rng.randint(1, 30 * s)     # at most ~30 intervals per contig: each real Interval costs ~0.2 ms
            lens.append(v)
        return {'kind': 'part', 'name': rng.choice(['GRCh38', 'GRCh37']), 'lengths': lens, 'size': size}

    def _named_resume_case(self, rng):
        """GVCFs with an external header and sample names, input datasets still to merge after the last GVCF step, stop/resume at EVERY
        step boundary"""
        bf = rng.randint(2, 6)
        batch = rng.randint(1, 3)
        g = rng.choice([1, 2, bf, bf + 1, bf * batch, bf * batch + 1, rng.randint(1, 4 * bf)])
        vds = [rng.choice([1, 2, bf, bf * bf, rng.randint(1, 80)]) for _ in range(rng.randint(1, 5))]
        k = 2 * g + len(vds) + 2
        return {'kind': 'plan', 'bf': bf, 'batch': batch, 'g': g, 'names': 1, 'vds': vds, 'resume': [1] * k}

    def _plan_case(self, rng):
        if rng.random() < 0.2:
            return self._named_resume_case(rng)
        bf = rng.randint(2, 12)
        batch = rng.randint(1, 20)
        r = rng.random()
        g = rng.choice([0, 0, 1, 2, bf, bf + 1, bf * batch, bf * batch + 1, rng.randint(0, 60), rng.randint(0, 60)])
        g = min(g, 60)
        nv = rng.choice([0, 0, 1, 2, 3, bf - 1, bf, bf + 1, rng.randint(0, 14), rng.randint(0, 30)])
        if r < 0.03:
            g, nv = 0, 0
        vds = []
        for _ in range(nv):
            vds.append(rng.choice([1, 1, 2, 3, bf - 1, bf, bf + 1, bf * bf - 1, bf * bf, bf * bf + 1, bf ** 3, rng.randint(1, 300)]))
        if rng.random() < 0.5:
            vds.sort(reverse=True)    # new_combiner sorts by n_samples descending
        k = 2 * g + nv + 2
        mode = rng.choice(['none', 'all', 'random', 'random'])
        if mode == 'none':
            resume = [0] * k
        elif mode == 'all':
            resume = [1] * k
        else:
            resume = [1 if rng.random() < 0.35 else 0 for _ in range(k)]
        if rng.random() < 0.03:
            bf = rng.choice([0, 1])      # constructor must refuse
        if rng.random() < 0.02:
            batch = 0
        case = {'kind': 'plan', 'bf': bf, 'batch': batch, 'g': g, 'names': rng.randint(0, 1), 'vds': vds, 'resume': resume}
        if rng.random() < 0.4:
            # import intervals: the real calculate_even_genome_partitioning of a small genome (<= ~40 intervals: each costs ~0.2 ms per load)
            size = rng.choice([1, 2, 3, 5, 7, 10])
            case['ivsize'] = size
            case['ivlens'] = [rng.choice([1, size, size + 1, max(1, size - 1), 2 * size, rng.randint(1, 2 * size)]) for _ in range(25)]
            if rng.random() < 0.3:
                # the NUMBER of import intervals around the merge-task limit (150000 // n clamps of the batch-size setter); a stand-in list
                # of that length around the few real intervals
                case['nintervals'] = rng.choice([147075, 150000, 150001, 75000, 75001, 50001, 300000, 100000, 1000])
        if rng.random() < 0.3:
            # combiner.gvcf_batch_size = v between steps (the public setter)
            case['setter'] = [[rng.randrange(max(1, min(k, 6))), rng.choice([1, 2, 3, batch if batch >= 1 else 1, 20, 150000])]
                              for _ in range(rng.choice([1, 1, 2]))]
        return case

    def _crash_case(self, rng):
        """a run() loop with failures inside steps: in attempt a the faults[a]-th engine call (read / merge / write / header read) raises,
        the combiner is reloaded from its save_path and run() is called again; the last attempt is fault-free"""
        bf = rng.randint(2, 6)
        batch = rng.randint(1, 4)
        g = rng.choice([0, 1, 2, bf, bf + 1, bf * batch + 1, rng.randint(0, 25)])
        nv = rng.choice([0, 1, 2, 3, bf, bf + 1, rng.randint(0, 9)])
        if g + nv == 0:
            g = 1
        vds = [rng.choice([1, 2, bf, bf * bf, rng.randint(1, 60)]) for _ in range(nv)]
        faults = [rng.choice([1, 1, 2, 2, 3, 4, 5, 6, 8, rng.randint(1, 30)]) for _ in range(rng.choice([1, 1, 2, 3, 4]))]
        return {'kind': 'crash', 'bf': bf, 'batch': batch, 'g': g, 'names': rng.randint(0, 1), 'vds': vds, 'faults': faults,
                'fault_kind': rng.choice(['exc', 'exc', 'int'])}

    def cases(self, rng, n, tier):
        for i in range(n):
            yield self._part_case(rng) if i % 3 == 0 else self._crash_case(rng) if i % 3 == 1 and i % 2 == 0 else self._plan_case(rng)

    # ------------------------------------------------------------------------------------------
    @staticmethod
    def _anomalies(c):
        bf = c['bf']
        if bf < 2:
            return []
        total = c['g'] + sum(c['vds'])
        out = []
        for n in range(1, total + 1):
            f = floor(log(n, bf))
            if f != ilog(bf, n):
                out += [n, f]
        return out

    def model_lines(self, c):
        try:
            return self._model_lines(c)
        except Exception as e:  # noqa: BLE001
            return [f'unmodelled {type(e).__name__}']      # answered `bad-op` by the driver: a mismatch, not a crash

    def _model_lines(self, c):
        if c['kind'] == 'part':
            return [f'part {L} {c["size"]}' for L in c['lengths']]
        if c['kind'] == 'crash':
            r = self._run_crash(c)
            vs = []
            for i, n in enumerate(c['vds']):
                vs += [1000 + i, n]
            return ['reset', ' '.join(map(str, ['init', c['bf'], c['batch'], 1 if (c['names'] and c['g'] > 0) else 0, 'G'] + list(range(c['g'])) + ['V'] + vs + ['F']
                                          + self._anomalies(c)))] + r['trace']
        g = c['g']
        vs = []
        for i, n in enumerate(c['vds']):
            vs += [1000 + i, n]
        lines = ['reset',
                 ' '.join(map(str, ['init', c['bf'], c['batch'], 1 if (c['names'] and g > 0) else 0, 'G'] + list(range(g)) + ['V'] + vs + ['F'] + self._anomalies(c)))]
        ivline = 'ivrt ' + ' '.join(map(str, self._iv_tokens(c)))
        legal = c['bf'] >= 2 and c['batch'] >= 1     # a refused constructor leaves nothing to reload
        real_len = len(self._iv_tokens(c)) // 6
        cur_len = c.get('nintervals') or real_len
        for i, r in enumerate(c['resume']):
            if r:
                lines.append('reload')
                if legal:
                    lines.append(ivline.strip())
                    cur_len = real_len       # the stand-in length does not survive the JSON round trip
            if legal:
                for (at, v) in c.get('setter', []):
                    if at == i:
                        lines.append(f'setbatch {cur_len} {v}')
            lines.append('step')
        return lines

    @staticmethod
    def _iv_tokens(c):
        """the closed intervals [1..L] tiled by ceil-even pieces, as (contig index, start, contig index, end, 1, 1) — computed
        from the case alone (independent of the code under test) for the model's round trip"""
        if not c.get('ivsize'):
            return []
        toks = []
        size = c['ivsize']
        for ci, L in enumerate(c['ivlens']):
            nparts = -(-L // size)
            real = -(-L // nparts)
            n = 1
            while n <= L:
                e = min(n + real - 1, L)
                toks += [ci, n, ci, e, 1, 1]
                n = e + 1
        return toks

    # ---- Part A on the real code ----
    def _run_part(self, c):
        contigs = self.CONTIGS38 if c['name'] == 'GRCh38' else self.CONTIGS37
        lengths = dict(zip(contigs, c['lengths']))
        rg = self.ReferenceGenome(c['name'], contigs, lengths, _builtin=True)
        try:
            ivs = self.cb.calculate_even_genome_partitioning(rg, c['size'])
        except ZeroDivisionError:
            return None, contigs, rg
        return ivs, contigs, rg

    def _impl_part(self, c):
        ivs, contigs, _rg = self._run_part(c)
        if ivs is None:
            return ['err'] * len(contigs)
        per = {k: [] for k in contigs}
        for iv in ivs:
            per[iv.start.contig].append(f'{iv.start.position}-{iv.end.position}')
        return [','.join(per[k]) for k in contigs]

    def _oracle_part(self, c):
        ivs, contigs, rg = self._run_part(c)
        if c['size'] < 1:
            return None if ivs is None else 'interval size 0 accepted'
        if ivs is None:
            return 'ZeroDivisionError for a positive interval size'
        pos = 0
        for ctg, L in zip(contigs, c['lengths']):
            nxt = 1
            while pos < len(ivs) and ivs[pos].start.contig == ctg:
                iv = ivs[pos]
                if iv.end.contig != ctg or iv.start.reference_genome is not rg or iv.end.reference_genome is not rg:
                    return f'{ctg}: interval {iv} leaves the contig / reference genome'
                if not (iv.includes_start and iv.includes_end):
                    return f'{ctg}: interval {iv} is not closed (the partitioning is stated with inclusive ends)'
                s, e = iv.start.position, iv.end.position
                if s != nxt:
                    return f'{ctg} (length {L}, size {c["size"]}): interval starts at {s}, expected {nxt} ' + ('(overlap)' if s < nxt else '(gap)')
                if e < s:
                    return f'{ctg}: empty interval [{s}, {e}]'
                if e - s + 1 > c['size']:
                    return f'{ctg} (length {L}): interval [{s}, {e}] has {e - s + 1} bases, more than the requested {c["size"]}'
                if e > L:
                    return f'{ctg} (length {L}): interval [{s}, {e}] ends beyond the contig'
                nxt = e + 1
                pos += 1
            if nxt != L + 1:
                return f'{ctg} (length {L}, size {c["size"]}): bases {nxt}..{L} are not covered'
        if pos != len(ivs):
            return f'intervals out of contig order from index {pos}: {ivs[pos]}'
        return None

    # ---- Part B on the real code ----
    def _dump(self, comb):
        rec = self.rec

        def ds(md):
            leaves = rec.datasets.get(md.path, (['?' + md.path], 0))[0]
            return '+'.join(self._leaf(x) for x in leaves) + '/' + str(md.n_samples)
        bins = ';'.join(f'{b}:' + '|'.join(ds(md) for md in comb._vdses[b]) for b in sorted(comb._vdses))
        names = '-' if comb._gvcf_sample_names is None else ','.join(x[1:] for x in comb._gvcf_sample_names)
        fin = '|'.join('+'.join(self._leaf(x) for x in lv) + '/' + str(n) for lv, n in rec.finals)
        return ('g=' + ','.join(x[1:] for x in comb._gvcfs) + ' n=' + names + ' b=' + bins + ' f=' + fin + (' done' if comb.finished else ''))

    @staticmethod
    def _leaf(x):
        return x[1:] if isinstance(x, str) and x[:1] in 'gv' else str(x)

    def _run_plan(self, c):
        """-> (lines, recorder, combiner or None)"""
        vdc = self.vdc
        self.rec = rec = Recorder()
        FakeVDS.rec = rec
        FakeVDS.output_path = '/out/final.vds'
        self.fs.files.clear()
        g = c['g']
        gv = [f'g{i}' for i in range(g)]
        names = [f'n{i}' for i in range(g)] if (c['names'] and g > 0) else None   # a fresh combiner without GVCFs carries no header
        mds = []
        for i, n in enumerate(c['vds']):
            p = f'v{1000 + i}'
            rec.datasets[p] = ([p], n)
            rec.reads[p] = 0
            mds.append(vdc.VDSMetadata(p, n))
        n_lines = 1 + sum(1 + r for r in c['resume'])      # a refused constructor: no ivrt / setbatch lines
        contigs = self.CONTIGS38
        lens = c.get('ivlens') or [1] * 25
        self.rg = self.ReferenceGenome('GRCh38', contigs, dict(zip(contigs, lens)), _builtin=True)
        intervals = self.cb.calculate_even_genome_partitioning(self.rg, c['ivsize']) if c.get('ivsize') else []
        if c.get('nintervals') and intervals:
            intervals = LenList(intervals)
            intervals.n = c['nintervals']
        self.load_problems = []
        cidx = {k: i for i, k in enumerate(contigs)}

        def show_ivs(ivs):
            return ','.join(f'{cidx[i.start.contig]}:{i.start.position}-{cidx[i.end.contig]}:{i.end.position}'
                            f'{"[" if i.includes_start else "("}{"]" if i.includes_end else ")"}' for i in ivs)
        try:
            comb = vdc.VariantDatasetCombiner(
                save_path='/plans/plan.json', output_path=FakeVDS.output_path, temp_path='/tmp/t', reference_genome=self.rg,
                dataset_type=vdc.CombinerOutType(FakeTM('ref'), FakeTM('var')), branch_factor=c['bf'], gvcf_batch_size=c['batch'],
                call_fields=['PGT'], vdses=mds, gvcfs=gv, gvcf_sample_names=names, gvcf_external_header='hdr' if names is not None else None,
                gvcf_import_intervals=intervals)
        except ValueError:
            return ['ok'] + ['err'] * n_lines, rec, None
        lines = ['ok', self._dump(comb)]
        self.plan_problem = None
        doing = 'construct'
        try:
            for i, r in enumerate(c['resume']):
                if r:
                    doing = f'save() before step {i + 1}'
                    comb.save()
                    saved = comb
                    doing = f'load() of the plan saved before step {i + 1} (plan: {lines[-1]})'
                    comb = vdc.VariantDatasetCombiner.load('/plans/plan.json')
                    lines.append(self._dump(comb))
                    lines.append(show_ivs(comb._gvcf_import_intervals))
                    self._check_load(c, saved, comb, contigs, lens)
                for (at, v) in c.get('setter', []):
                    if at == i:
                        doing = f'gvcf_batch_size = {v} before step {i + 1}'
                        comb.gvcf_batch_size = v
                        lines.append(self._dump(comb) + f' batch={comb._gvcf_batch_size}')
                doing = f'step {i + 1} (plan: {lines[-1]})'
                comb.step()
                lines.append(self._dump(comb))
        except Exception as e:  # noqa: BLE001   whatever the real code raises is an outcome to judge, never a harness crash
            self.plan_problem = f'{doing} raised {type(e).__name__}: {e}'
            want = 2 + sum(1 + (2 * r if (c['bf'] >= 2 and c['batch'] >= 1) else r) for r in c['resume']) \
                + sum(1 for (at, _v) in c.get('setter', []) if at < len(c['resume']) and c['bf'] >= 2 and c['batch'] >= 1)
            lines += [f'exc {type(e).__name__}'] * max(0, want - len(lines))
        return lines, rec, comb

    def _check_load(self, c, saved, loaded, contigs, lens):
        """the resumed combiner is the saved one (every serialized field; the bins of _vdses as a multiset, see save_load_id_partial)
        and its import intervals still tile every contig"""
        if self.load_problems:
            return
        if c.get('ivsize'):
            m = self._tiling_problem(loaded._gvcf_import_intervals, contigs, lens, c['ivsize'], self.rg)
            if m:
                self.load_problems.append('import intervals of the combiner resumed from its saved plan: ' + m)
                return
        for slot in type(saved).__serialized_slots__:
            a, b = getattr(saved, slot), getattr(loaded, slot)
            if slot == '_vdses':
                fa = sorted((md.path, md.n_samples) for v in a.values() for md in v)
                fb = sorted((md.path, md.n_samples) for v in b.values() for md in v)
                if fa != fb:
                    self.load_problems.append(f'load(save()) changed the datasets of the plan: {fa[:4]} -> {fb[:4]}')
                    return
            elif a != b:
                if slot == '_gvcf_import_intervals' and len(a) == len(b):
                    k = next(i for i in range(len(a)) if a[i] != b[i])
                    a, b = f'interval {k}: {a[k]}', f'{b[k]}'
                self.load_problems.append(f'load(save()) changed {slot}: {str(a)[:150]} -> {str(b)[:150]}')
                return

    @staticmethod
    def _tiling_problem(ivs, contigs, lengths, size, rg):
        pos = 0
        for ctg, L in zip(contigs, lengths):
            nxt = 1
            while pos < len(ivs) and ivs[pos].start.contig == ctg:
                iv = ivs[pos]
                if iv.end.contig != ctg or iv.start.reference_genome is not rg or iv.end.reference_genome is not rg:
                    return f'{ctg}: interval {iv} leaves the contig / reference genome'
                # first and last base actually covered, honouring includes_start / includes_end
                s = iv.start.position + (0 if iv.includes_start else 1)
                e = iv.end.position - (0 if iv.includes_end else 1)
                if s != nxt:
                    return (f'{ctg} (length {L}, size {size}): interval {iv} covers bases {s}..{e}, expected to start at {nxt} '
                            + ('(overlap)' if s < nxt else f'(base {nxt} is not covered)'))
                if e < s:
                    return f'{ctg}: empty interval {iv}'
                if e - s + 1 > size:
                    return f'{ctg} (length {L}): interval {iv} has {e - s + 1} bases, more than the requested {size}'
                if e > L:
                    return f'{ctg} (length {L}): interval {iv} ends beyond the contig'
                nxt = e + 1
                pos += 1
            if nxt != L + 1:
                return f'{ctg} (length {L}, size {size}): bases {nxt}..{L} are not covered'
        if pos != len(ivs):
            return f'intervals out of contig order from index {pos}: {ivs[pos]}'
        return None

    def _run_crash(self, c):
        key = json.dumps(c, sort_keys=True)
        if key in self.crash_cache:
            return self.crash_cache[key]
        vdc = self.vdc
        self.rec = rec = Recorder()
        FakeVDS.rec = rec
        FakeVDS.output_path = '/out/final.vds'
        self.fs.files.clear()
        g = c['g']
        names = [f'n{i}' for i in range(g)] if (c['names'] and g > 0) else None   # a fresh combiner without GVCFs carries no header
        mds = []
        for i, n in enumerate(c['vds']):
            p = f'v{1000 + i}'
            rec.datasets[p] = ([p], n)
            rec.reads[p] = 0
            mds.append(vdc.VDSMetadata(p, n))
        contigs = self.CONTIGS38
        self.rg = self.ReferenceGenome('GRCh38', contigs, dict(zip(contigs, [1] * 25)), _builtin=True)
        res = {'problem': None, 'faulted': 0}
        try:
            comb = vdc.VariantDatasetCombiner(
                save_path='/plans/plan.json', output_path=FakeVDS.output_path, temp_path='/tmp/t', reference_genome=self.rg,
                dataset_type=vdc.CombinerOutType(FakeTM('ref'), FakeTM('var')), branch_factor=c['bf'], gvcf_batch_size=c['batch'],
                call_fields=['PGT'], vdses=mds, gvcfs=[f'g{i}' for i in range(g)], gvcf_sample_names=names,
                gvcf_external_header='hdr' if names is not None else None, gvcf_import_intervals=[])
        except Exception as e:  # noqa: BLE001
            res.update(problem=f'the constructor refused a legal configuration: {type(e).__name__}: {e}', trace=[], lines=['ok', 'exc ' + type(e).__name__],
                       finals=[], errors=[], finished=False, last='', merges=[])
            self.crash_cache[key] = res
            return res
        self.trace, self.trace_lines = [], ['ok', self._dump(comb)]
        rec.fault_kind = c.get('fault_kind', 'exc')
        for k in list(c['faults']) + [0]:
            rec.ops, rec.fault_at = 0, k
            self.trace_active = True
            try:
                comb.run()
                break
            except (InjectedFault, InjectedInterrupt):
                res['faulted'] += 1
            except HarnessAbort:
                res['problem'] = f'run() issued more than 5000 engine calls without finishing (plan: {self._dump(comb)})'
                break
            except Exception as e:  # noqa: BLE001
                res['problem'] = f'run() raised {type(e).__name__}: {e} (plan: {self._dump(comb)})'
                break
            finally:
                self.trace_active = False
            # the user restarts from the saved plan
            rec.fault_at = 0
            try:
                comb = vdc.VariantDatasetCombiner.load('/plans/plan.json')
            except Exception as e:  # noqa: BLE001
                res['problem'] = f'the saved plan cannot be loaded after a failure inside a step: {type(e).__name__}: {e}'
                break
            self.trace.append('reload')
            self.trace_lines.append(self._dump(comb))
        res.update(trace=list(self.trace), lines=list(self.trace_lines), finals=list(rec.finals), errors=list(rec.errors),
                   finished=comb.finished, last=self._dump(comb), merges=list(rec.gvcf_merges))
        if len(self.crash_cache) > 50000:
            self.crash_cache.clear()
        self.crash_cache[key] = res
        return res

    def _oracle_crash(self, c):
        r = self._run_crash(c)
        if r['problem']:
            return r['problem']
        if r['errors']:
            return r['errors'][0]
        if not r['finished']:
            return f'run() returned but the plan is not finished: {r["last"]}'
        inputs = sorted([f'g{i}' for i in range(c['g'])] + [f'v{1000 + i}' for i in range(len(c['vds']))])
        what = f'after {r["faulted"]} failure(s) inside steps (engine calls {c["faults"][:r["faulted"]]}), each followed by a resume from the saved plan'
        if len(r['finals']) != 1:
            return f'{len(r["finals"])} datasets written to the output path {what}, expected exactly one'
        leaves, n = r['finals'][0]
        if sorted(leaves) != inputs:
            missing = sorted(set(inputs) - set(leaves))
            dup = sorted({x for x in leaves if leaves.count(x) > 1})
            return f'{what} the final dataset is built from {len(leaves)} of {len(inputs)} inputs: missing {missing[:6]}, used more than once {dup[:6]}'
        if n != c['g'] + sum(c['vds']):
            return f'{what} the final dataset has {n} samples, the inputs have {c["g"] + sum(c["vds"])}'
        if c['names']:
            for paths, ids in r['merges']:
                if ids != ['n' + p[1:] for p in paths]:
                    return f'GVCFs {paths[:4]}… merged under sample names {ids[:4]}…'
        return None

    def impl(self, c):
        if c['kind'] == 'part':
            return self._impl_part(c)
        if c['kind'] == 'crash':
            return self._run_crash(c)['lines']
        return self._run_plan(c)[0]

    def _oracle_plan(self, c):
        lines, rec, comb = self._run_plan(c)
        legal = c['bf'] >= 2 and c['batch'] >= 1
        if comb is None:
            return None if not legal else 'constructor refused a legal configuration'
        if not legal:
            return f'constructor accepted branch_factor={c["bf"]}, gvcf_batch_size={c["batch"]}'
        if self.plan_problem:
            return 'the combiner does not complete: ' + self.plan_problem
        if rec.errors:
            return rec.errors[0]
        if self.load_problems:
            return self.load_problems[0]
        if not comb.finished:
            return f'not finished after {len(c["resume"])} steps (2*gvcfs + vdses + 2): {lines[-1]}'
        inputs = sorted([f'g{i}' for i in range(c['g'])] + [f'v{1000 + i}' for i in range(len(c['vds']))])
        if not inputs:
            if rec.finals or rec.writes:
                return 'datasets written although there is no input'
            return None
        if len(rec.finals) != 1:
            return f'{len(rec.finals)} datasets written to the output path, expected exactly one'
        leaves, n = rec.finals[0]
        if sorted(leaves) != inputs:
            missing = sorted(set(inputs) - set(leaves))
            dup = sorted({x for x in leaves if leaves.count(x) > 1})
            return f'the final dataset is built from {len(leaves)} inputs: missing {missing[:6]}, used more than once {dup[:6]}'
        if n != c['g'] + sum(c['vds']):
            return f'the final dataset has {n} samples, the inputs have {c["g"] + sum(c["vds"])}'
        for p, k in rec.reads.items():
            if k != 1:
                return f'dataset {p} was merged {k} times'
        for p, k in rec.writes.items():
            if k != 1:
                return f'path {p} was written {k} times'
        if c['names']:
            for paths, ids in rec.gvcf_merges:
                if ids != ['n' + p[1:] for p in paths]:
                    return f'GVCFs {paths[:4]}… merged under sample names {ids[:4]}…'
        return None

    def oracle(self, c, out):
        if out and out[0].startswith('IMPL-EXC'):
            return out[0]
        try:
            return self._oracle(c)
        except Exception as e:  # noqa: BLE001   the real code raised where no outcome was expected: that is a failure to report
            return f'the real code raised {type(e).__name__}: {e}'

    def _oracle(self, c):
        return self._oracle_part(c) if c['kind'] == 'part' else self._oracle_crash(c) if c['kind'] == 'crash' else self._oracle_plan(c)

    def classify(self, c, out):
        try:
            return self._classify(c, out)
        except Exception:  # noqa: BLE001
            return (None, [c.get('kind', '?') + ' unclassified (real code raised)'])

    def _classify(self, c, out):
        if c['kind'] == 'part':
            k = max((o.count(',') + 1 for o in out if o not in ('err', '')), default=0)
            tags = ['part ' + ('err' if out and out[0] == 'err' else f'max-intervals-per-contig={min(k, 5)}{"+" if k >= 5 else ""}'),
                    'part size=' + ('0' if c['size'] == 0 else '1' if c['size'] == 1 else '<100' if c['size'] < 100 else '>=100')]
            return (json.dumps(c, sort_keys=True) if k >= 2 else None, tags)
        if c['kind'] == 'crash':
            r = self._run_crash(c)
            tags = [f'crash failures-hit={r["faulted"]}', 'crash ' + ('Ctrl-C' if c.get('fault_kind') == 'int' else 'exception'),
                    f'crash steps={min(r["trace"].count("step"), 6)}{"+" if r["trace"].count("step") >= 6 else ""}']
            return (json.dumps(c, sort_keys=True) if r['faulted'] >= 1 and r['trace'].count('step') >= 2 else None, tags)
        if out and len(out) > 1 and out[1] == 'err':
            return (None, ['plan refused'])
        merges = 0
        prev = None
        for o in out[1:]:
            if o != prev:
                merges += 1
            prev = o
        tags = [f'plan gvcfs={"0" if c["g"] == 0 else "1-10" if c["g"] <= 10 else "11-60"}',
                f'plan vdses={"0" if not c["vds"] else "1-3" if len(c["vds"]) <= 3 else "4+"}',
                'plan resume=' + ('none' if not any(c['resume']) else 'all' if all(c['resume']) else 'some'),
                f'plan state-changes={min(merges, 6)}{"+" if merges >= 6 else ""}',
                'plan names' if c['names'] else 'plan no-names',
                'plan interval-count=' + ('real' if not c.get('nintervals') else '<=150000' if c['nintervals'] <= 150000 else '>150000'),
                'plan setter-calls' if c.get('setter') else 'plan no-setter-call',
                'plan import-intervals' + ('' if c.get('ivsize') else '=none') + (' reloaded' if c.get('ivsize') and any(c['resume']) else '')]
        if self._anomalies(c):
            tags.append('plan float-log-anomaly')
        return (json.dumps(c, sort_keys=True) if merges >= 3 else None, tags)

    def finding_key(self, c, msg):
        return json.dumps(c, sort_keys=True)

    def shrink(self, c, fails):
        cur = dict(c)
        if c['kind'] == 'part':
            for i in range(len(cur['lengths'])):
                cand = dict(cur, lengths=cur['lengths'][:i] + [1] + cur['lengths'][i + 1:])
                if cand != cur and fails(cand):
                    cur = cand
            return cur
        if c['kind'] == 'crash':
            changed = True
            while changed:
                changed = False
                cands = []
                for i in range(len(cur['faults'])):
                    cands.append(dict(cur, faults=cur['faults'][:i] + cur['faults'][i + 1:]))
                if cur['g'] > 0:
                    cands += [dict(cur, g=cur['g'] - 1), dict(cur, g=cur['g'] // 2)]
                for i in range(len(cur['vds'])):
                    cands.append(dict(cur, vds=cur['vds'][:i] + cur['vds'][i + 1:]))
                if cur['names']:
                    cands.append(dict(cur, names=0))
                for cand in cands:
                    if cand != cur and cand['faults'] and cand['g'] + len(cand['vds']) > 0 and fails(cand):
                        cur = cand
                        changed = True
                        break
            return cur
        changed = True
        while changed:
            changed = False
            cands = []
            if cur['g'] > 0:
                cands.append(dict(cur, g=cur['g'] - 1))
                cands.append(dict(cur, g=cur['g'] // 2))
            for i in range(len(cur['vds'])):
                cands.append(dict(cur, vds=cur['vds'][:i] + cur['vds'][i + 1:]))
            if any(cur['resume']):
                cands.append(dict(cur, resume=[0] * len(cur['resume'])))
            if cur['names']:
                cands.append(dict(cur, names=0))
            for cand in cands:
                k = 2 * cand['g'] + len(cand['vds']) + 2
                cand['resume'] = (cand['resume'] + [0] * k)[:k]
                if cand != cur and fails(cand):
                    cur = cand
                    changed = True
                    break
        return cur


PROP = C38()

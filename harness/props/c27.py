"""C27 Database transactions retry only transient errors, atomically.

The REAL gear.database (`Database`, `Transaction`, `@transaction`, `retry_transient_mysql_errors`) runs over the fake aiomysql
pool of harness/minisql/fakepool.py backed by minisql on a 2-table schema; a fault (pymysql exception class, code) is injected
at a chosen statement index of a chosen attempt; the retry sleeps run on aloop.VLoop's virtual clock.  Statements are issued through
every Transaction.execute_* flavour, with and without a `query_name` (with one, cursor.execute runs inside the REAL
gear.metrics.PrometheusSQLTimer; only the prometheus_client metric objects behind it are inert stubs), inside a @transaction body
or as a single Database.execute_* call.  The same case goes to
the Lean model `HailVerif.TxRetry.run` (Driver/C27.lean); outputs are compared line by line, and the oracle checks the property
itself on the real run: retried <=> the error is one of the property's transient conditions; tables afterwards = initial tables
with the body applied exactly once (success) or the initial tables (gave up).
"""
import ast
import asyncio
import json
import logging
import os
import random

from .. import aloop, loader
from ..framework import LEAN, Prop, TieBroken, generic_shrink_list, write_if_changed

# the property's transient conditions, as (class, code) pairs that PyMySQL can raise them as
TRANSIENT = {
    'op:1213',   # deadlock
    'op:1205',   # lock wait timeout (PyMySQL >= 1.0: OperationalError)
    'int:1205',  # lock wait timeout (PyMySQL < 1.0: InternalError)
    'op:2013',   # lost connection during query
    'op:2003',   # cannot (re)connect
    'op:1040',   # too many connections
}
# base:0 = the task running the operation is cancelled (asyncio.CancelledError) while the statement is in flight (not yet executed by the
# server); base:1 = the statement raises some other BaseException that is not an Exception.  Neither is a MySQL error: they are the other
# ways an attempt can fail, and the atomicity clause ("no ... failed attempt leaves partial writes behind") covers them.
BASE = ['base:0', 'base:1']
OTHER = ['integ:1062', 'prog:1064', 'op:1644', 'op:1054', 'op:1317', 'op:1206', 'op:1105', 'data:1406', 'nosup:1235',
         'int:1213', 'int:1040', 'integ:1205', 'prog:1213', 'iface:0', 'other:0',
         # the numeric neighbours of the transient codes and the other client-side (CR_*) connection errors: none of them is in the
         # property's transient list (seed C27-15 widened the retry set by 2006 "server has gone away")
         'op:2006', 'op:2002', 'op:2014', 'op:2055', 'op:2012', 'op:2004', 'op:1041', 'op:1039', 'op:1204', 'op:1206', 'op:1212',
         'op:1214'] + BASE


# what a @transaction body does with a pymysql error of one of its statements: 'from' = `except MySQLError as e: raise AppError() from e`,
# 'raise' = `except MySQLError: raise AppError()` (implicit __context__ only), 'reraise' = `except MySQLError: raise`; the marker is the
# LAST element of a body statement, e.g. ['w', 1, 10, 0, 'from'] or ['m', 1, 2, 1, 1001, 'raise']
WRAPS = ('from', 'raise', 'reraise')


def wrap_of(st):
    return st[-1] if isinstance(st[-1], str) and st[-1] in WRAPS else None


def escaping(err, st):
    """the exception that leaves the body when statement `st` raises `err`: the application error (an Exception that is not a pymysql
    error: 'other:0') if the body catches MySQL errors of that statement and raises its own"""
    if st is not None and wrap_of(st) in ('from', 'raise') and err.split(':')[0] not in ('other', 'base'):
        return 'other:0'
    return err


class AppError(Exception):
    """the application's own error"""


class Abort(BaseException):
    """a BaseException outside the Exception hierarchy that asyncio treats like any other (unlike KeyboardInterrupt / SystemExit, which
    Task.__step re-raises into the event loop)"""
ERRS = sorted(TRANSIENT) + OTHER

SCHEMA = """
CREATE TABLE ta (k INT NOT NULL, v BIGINT NOT NULL, PRIMARY KEY (k));
CREATE TABLE tb (k INT NOT NULL, v BIGINT NOT NULL, PRIMARY KEY (k));
"""
N_PRE = 2   # statement indices of one attempt: 0 = taking a connection, 1 = START TRANSACTION, 2.. = body, 2+len(body) = COMMIT


def table_of(k):
    return 'ta' if k < 100 else 'tb'


class C27(Prop):
    id = 'C27'
    title = 'Database transactions retry only transient errors, atomically'
    lean_props = ['HailVerif.Props.C27']
    driver = 'Driver/C27.lean'
    engine = 'E2-async'
    design_ref = 'DESIGN.md §4 C27'
    technique = ('Lean 4 proof by induction over the list of per-attempt fault scripts on an abstract transactional store + differential '
                 'correspondence with the real gear.database over a fake aiomysql pool with fault injection')
    level_text = ('Theorems for every database state type, statement semantics, body, fault position/class/code and finite sequence of faulty '
                  'attempts: an attempt failing with e is retried iff exception_log_level_if_retryable(e) (retries_iff_retryable, '
                  'retried_transient, gives_up_on_other); the final database is the initial one with the body applied exactly once, or the initial '
                  'one if the wrapper gave up (no_partial_writes); the classifier retries exactly codes 1213/1205/2013/2003/1040 '
                  '(only_transient_retried) and each of them under the class PyMySQL 1.1.2 raises it as, 1205 under both classes '
                  '(transient_list_retried, lock_wait_timeout_retried_both_classes); statements issued with a query_name run inside '
                  'PrometheusSQLTimer, whose __aexit__ result is re-read from gear/gear/metrics.py on every run, and behave exactly like plain ones '
                  '(instrumented_error_propagates, query_name_transparent, run_query_name_transparent); an attempt ended by a BaseException '
                  '(task cancellation while a statement is in flight, GeneratorExit, ...) is rolled back and not retried, and is all or nothing: '
                  'only a cancellation arriving after the COMMIT was sent leaves the whole body applied (cancelled_all_or_nothing, no_partial_writes). The model is tied to the real @transaction wrapper by runs '
                  'with a fault at every statement index x every error on every run.')
    level_note = ('Partial: the server side is the fake pool + minisql (rollback/commit semantics and what the server does on deadlock, lock wait '
                  'timeout and connection loss are assumptions listed below); PyMySQL error classes come from a shim reproducing 1.1.2 error_map; '
                  'interleaving of concurrent transactions and the behaviour of real aiomysql/MySQL beyond the listed assumptions are outside the claim.')
    budget = {'quick': 4800, 'thorough': 40000}
    search_budget = {'quick': 3000, 'thorough': 60000}
    rule = ('case = (initial rows, body of upsert/insert/update/select statements over two tables each issued through its Transaction.execute_* '
            'method with or without a query_name, run inside one @transaction function or as a single Database.execute_* call, fault script per '
            'attempt = statement index x error); every run contains the exhaustive layer {12 fixed bodies: plain, all-instrumented, mixed with reads, '
            'single-statement Database calls} x {every statement index incl. acquire, START TRANSACTION, COMMIT and one past} x {every (class, code) of '
            'the error list} plus execute_many batches of {1, 2, 999, 1000, 1001, 2500} argument rows (single Database.execute_many calls with a fault at every statement of the 1st, 2nd and 3rd '
            'transaction the call might open, and inside @transaction bodies) plus bodies whose statements are guarded (`except MySQLError as e: raise AppError() from e`, plain `raise AppError()`, re-raise: 2 fixed bodies in '
            'the exhaustive layer, 20 % of the random statements); plus the other ways an attempt fails: the task running the operation cancelled while statement i is in flight (base:0) and a BaseException '
            'raised by statement i (base:1) are error codes of the same exhaustive layer; cancellation of the task at EVERY suspension the real run '
            'exhibits (statement round trips, shielded commit / rollback, back-off sleeps) for 6 bodies incl. ones with injected errors, and at a random '
            'suspension in 8 % of the random cases (oracle only, no model line); plus runs of L consecutive transient failures of one operation for L in {1..12, 20, 50} (thorough: also 100, 200): the same error at the same statement every time for '
            'every transient error, errors and positions cycling, and a run ended by a non-transient error; 10 % of the random cases carry 7-16 fault scripts; '
            'plus random multi-attempt sequences (half of the faults aimed at body statements, half of the statements instrumented); '
            'non-trivial = at least one injected fault fired; distinct by full case')
    trusted = [
        'harness/minisql (MiniDB, SEMANTICS list) as the MySQL server; harness/minisql/fakepool.py as aiomysql',
        'harness/shims/pymysql: exception hierarchy and error_map of PyMySQL 1.1.2 (reproduced; the library is absent)',
        'harness/aloop.py VLoop virtual clock for sleep_before_try',
        'harness/extract of PrometheusSQLTimer.__aexit__ (props/c27.py aexit_result: straight-line body ending in `return <constant>`) and the Python '
        'rule that a truthy __aexit__ result suppresses the exception; prometheus_client metric objects (Counter/Summary/.labels/.time) are '
        'inert loader stubs whose __exit__ returns False -- the context manager gear.metrics.PrometheusSQLTimer itself is the real one',
    ]
    assumptions = [
        'the property\'s transient list is read as: deadlock 1213, lock wait timeout 1205 (OperationalError or InternalError), lost connection 2013, '
        'cannot connect 2003, too many connections 1040; 2006 (raised only by the synchronous PyMySQL writer, never by aiomysql) is not injected',
        'server effect of an injected error: 1213 rolls the transaction back; 1205 rolls back only the statement; connection-level errors drop the '
        'session (its transaction is rolled back); any other error leaves the transaction open until the client rolls back / releases',
        'the fake connection stays usable after an injected lost-connection error, so Transaction._aexit_1\'s rollback() succeeds (real aiomysql closes '
        'the connection in _read_bytes; rollback() would then raise InterfaceError and gear would surface that instead of retrying -- see the '
        'probe recorded in the evidence under aiomysql_closed_connection_probe)',
        'a connection released with an open transaction is closed by the pool and rolled back by the server (aiomysql behaviour)',
        'the gear.database logger is enabled at DEBUG and WARNING (a third of the cases each), INFO (a sixth) or silenced (a sixth) with a handler that formats and '
        'discards every record; root-logger configuration of a deployment (JSON formatter) is not reproduced',
        'the atomicity clause ("no retried or failed attempt leaves partial writes behind") is read as covering every way an attempt can fail, '
        'not only the injected MySQL errors of the quantifier text: cancellation of the calling task and other BaseExceptions are failures too',
        'every statement of the fake pool is one round trip (the task yields to the event loop once between the fault hook and the execution of the '
        'statement); a cancellation requested at statement i is delivered before the server executes it; KeyboardInterrupt / SystemExit (which asyncio '
        're-raises into the event loop) are represented by another BaseException subclass',
        'faults are injected at: taking a connection, START TRANSACTION, every body statement, COMMIT -- not at the ROLLBACK the client issues after a failure',
    ]

    # -- T tie: what PrometheusSQLTimer.__aexit__ returns --------------------------------------------
    TIMER_FILE = 'gear/gear/metrics.py'

    @staticmethod
    def aexit_result(src):
        """the constant `PrometheusSQLTimer.__aexit__` returns (None when it falls off the end).  Subset: a straight-line body of
        assert / expression / assignment statements ending (or not) in `return <constant>`; anything else is not guessed."""
        tree = ast.parse(src)
        cls = [n for n in tree.body if isinstance(n, ast.ClassDef) and n.name == 'PrometheusSQLTimer']
        if len(cls) != 1:
            raise TieBroken('gear/gear/metrics.py: class PrometheusSQLTimer not found')
        fns = [n for n in cls[0].body if isinstance(n, (ast.AsyncFunctionDef, ast.FunctionDef)) and n.name == '__aexit__']
        if len(fns) != 1 or not isinstance(fns[0], ast.AsyncFunctionDef):
            raise TieBroken('PrometheusSQLTimer.__aexit__ is not a single `async def`')
        body = fns[0].body
        for i, st in enumerate(body):
            if isinstance(st, ast.Return):
                if i != len(body) - 1:
                    raise TieBroken('PrometheusSQLTimer.__aexit__: statements after a return')
                if st.value is None:
                    return None
                if not isinstance(st.value, ast.Constant):
                    raise TieBroken(f'PrometheusSQLTimer.__aexit__ returns a non-constant expression: {ast.unparse(st.value)}')
                return st.value.value
            if not isinstance(st, (ast.Assert, ast.Expr, ast.Assign, ast.AnnAssign, ast.AugAssign, ast.Pass)):
                raise TieBroken(f'PrometheusSQLTimer.__aexit__: statement outside the translated subset: {ast.unparse(st)[:80]}')
        return None

    def generate(self, repo):
        with open(os.path.join(repo, self.TIMER_FILE), encoding='utf-8') as f:
            value = self.aexit_result(f.read())
        truthy = bool(value)
        src = f'''/-! GENERATED by harness/props/c27.py from the working tree — do not edit.
  source: {self.TIMER_FILE}, `PrometheusSQLTimer.__aexit__` returns `{value!r}` on its only path
-/
namespace HailVerif.Generated.SqlTimer

/-- truth value of the result of `PrometheusSQLTimer.__aexit__`.  Python semantics of `async with cm: block`: when `block`
raises, the exception is suppressed iff `await cm.__aexit__(type, exc, tb)` is truthy. -/
def aexitTruthy : Bool := {'true' if truthy else 'false'}

end HailVerif.Generated.SqlTimer
'''
        changed = write_if_changed(os.path.join(LEAN, 'HailVerif', 'Generated', 'SqlTimer.lean'), src)
        return [f'T: PrometheusSQLTimer.__aexit__ of {self.TIMER_FILE} returns {value!r} (aexitTruthy = {str(truthy).lower()}); '
                f'generated file {"rewritten" if changed else "unchanged"}']

    # -- setup -------------------------------------------------------------------------------------
    def setup(self, repo):
        loader.install(repo)
        import pymysql.err
        import gear.database as gd
        from ..minisql import fakepool
        from ..minisql.engine import MiniDB
        self.gd = gd
        self.fakepool = fakepool
        self.MiniDB = MiniDB
        self.err = pymysql.err
        self.records = 0
        prop = self

        class Sink(logging.Handler):
            """swallows the service's log output after rendering it the way any real handler would"""

            def emit(self, record):
                prop.records += 1
                self.format(record)
        self.sink = Sink()
        self.sink.setFormatter(logging.Formatter('%(asctime)s %(levelname)s %(name)s %(filename)s:%(lineno)s %(message)s'))
        self._probe = None
        self._stepped = {}

    def make_exc(self, name):
        cls, code = name.split(':')
        code = int(code)
        e = self.err
        if cls == 'other':
            return ValueError('injected')
        if cls == 'base':
            return Abort('injected')
        klass = {'op': e.OperationalError, 'int': e.InternalError, 'integ': e.IntegrityError, 'prog': e.ProgrammingError,
                 'data': e.DataError, 'nosup': e.NotSupportedError, 'iface': e.InterfaceError}[cls]
        return klass(code, f'injected {name}')

    def name_of(self, exc):
        e = self.err
        if isinstance(exc, asyncio.CancelledError):
            return 'base:0'
        if isinstance(exc, Abort):
            return 'base:1'
        for cls, klass in (('op', e.OperationalError), ('int', e.InternalError), ('integ', e.IntegrityError), ('prog', e.ProgrammingError),
                           ('data', e.DataError), ('nosup', e.NotSupportedError), ('iface', e.InterfaceError)):
            if type(exc) is klass:
                return f'{cls}:{exc.args[0]}'
        return 'other:0'

    # -- cases -------------------------------------------------------------------------------------
    # case = {'init': {key: value}, 'body': [[kind, key, delta(, named)]...], 'scripts': [None | [statement index, error]...](, 'mode': 'db')}
    #   kind u = upsert through execute_many, i = execute_insertone, w = execute_update, r = SELECT through execute_and_fetchone,
    #   a = SELECT through execute_and_fetchall; named = 1: the statement is issued with query_name=... (metrics-instrumented path);
    #   [m, key, delta, named, n] = execute_many of the upsert with n argument rows (key + j % 2, delta), j < n (one multi-row INSERT)
    #   mode 'tx' (default): the body runs inside one @transaction function; mode 'db': the body is ONE statement issued through the
    #   retry-wrapped single-statement method Database.execute_many / execute_insertone / execute_update / execute_and_fetchone
    FIXED = [
        {'init': {'1': 5}, 'body': [['u', 1, 2], ['u', 107, 1], ['w', 1, 10]]},
        {'init': {'1': 5, '100': 1}, 'body': [['i', 2, 7], ['w', 100, -3]]},
        {'init': {}, 'body': [['u', 3, 4]]},
        # the same shapes issued with a query_name, plus the two read flavours
        {'init': {'1': 5}, 'body': [['u', 1, 2, 1], ['u', 107, 1, 1], ['w', 1, 10, 1]]},
        {'init': {'1': 5, '100': 1}, 'body': [['i', 2, 7, 1], ['r', 2, 0, 1], ['w', 100, -3, 1], ['a', 100, 0, 1]]},
        {'init': {'1': 5}, 'body': [['w', 1, 3], ['r', 1, 0], ['u', 1, 4, 1], ['a', 1, 0]]},
        # bodies that catch the MySQL error of a statement and raise their own error (from e / plain) or re-raise
        {'init': {'1': 5}, 'body': [['w', 1, 1], ['u', 2, 3, 0, 'from'], ['w', 1, 10, 1, 'raise'], ['i', 7, 1, 0, 'reraise']]},
        {'init': {'1': 5, '2': 0}, 'body': [['i', 2, 7, 1, 'from'], ['r', 1, 0, 0, 'from'], ['a', 1, 0, 1, 'raise'], ['m', 3, 1, 0, 3, 'from']]},
        # single-statement Database.execute_* calls
        {'init': {'1': 5}, 'body': [['w', 1, 10, 1]], 'mode': 'db'},
        {'init': {'1': 5}, 'body': [['w', 1, 10]], 'mode': 'db'},
        {'init': {'1': 5}, 'body': [['u', 1, 2, 1]], 'mode': 'db'},
        {'init': {'1': 5}, 'body': [['u', 2, 2]], 'mode': 'db'},
        {'init': {'1': 5}, 'body': [['r', 1, 0, 1]], 'mode': 'db'},
        {'init': {'1': 5}, 'body': [['i', 2, 7]], 'mode': 'db'},
    ]
    # batch sizes of Database.execute_many / Transaction.execute_many: around every plausible slice size of a client that splits batches
    MANY_SIZES = [1, 2, 999, 1000, 1001, 2500]
    MANY_ERRS = ['op:1213', 'op:2013', 'integ:1062', 'op:1054']

    LOGS = ['debug', 'warning', 'info', 'debug', 'warning', 'off']

    def exhaustive(self):
        for i, c in enumerate(self.exhaustive1()):
            # the logger configuration cycles through the cases (co-prime with the lengths of the error lists)
            yield {**c, 'log': self.LOGS[(i + i // 21 + i // 5) % len(self.LOGS)]}

    def exhaustive1(self):
        for fx in self.FIXED:
            n = len(fx['body'])
            for idx in range(0, n + N_PRE + 2):
                for err in ERRS:
                    yield {**fx, 'scripts': [[idx, err]]}
        for i, size in enumerate(self.MANY_SIZES):
            fx = {'init': {'1': 5}, 'body': [['m', 1, 2, i % 2, size]], 'mode': 'db'}
            yield {**fx, 'scripts': []}
            for idx in range(0, N_PRE + 2):
                for err in self.MANY_ERRS:
                    yield {**fx, 'scripts': [[idx, err]]}
                    if size > 1000:
                        # a fault in the 2nd / 3rd transaction the call opens, should it open more than one without a failure
                        yield {**fx, 'scripts': [None, [idx, err]]}
                        yield {**fx, 'scripts': [None, None, [idx, err]]}
            yield {'init': {'100': 1}, 'body': [['w', 100, 1], ['m', 100, 1, 1 - i % 2, size], ['r', 101, 0]], 'scripts': [[N_PRE + 1, 'op:1205'], [N_PRE + 3, 'op:1040']]}
        yield from self.long_runs(self.RUN_LENGTHS)
        yield from self.cancel_sweep()

    CANCEL_BODIES = [
        {'init': {'1': 5}, 'body': [['u', 1, 2], ['u', 107, 1, 1], ['w', 1, 10]], 'scripts': []},
        {'init': {'1': 5, '100': 1}, 'body': [['i', 2, 7, 1], ['r', 2, 0], ['w', 100, -3], ['a', 100, 0, 1]], 'scripts': []},
        # cancellation combined with injected errors: during the rollback after a deadlock, the back-off sleep, the second attempt
        {'init': {'1': 5}, 'body': [['w', 1, 1], ['u', 2, 3, 1]], 'scripts': [[N_PRE + 1, 'op:1213'], [N_PRE + 2, 'op:1205']]},
        {'init': {'1': 5}, 'body': [['w', 1, 1], ['u', 2, 3]], 'scripts': [[N_PRE + 1, 'op:1054']]},
        {'init': {'1': 5}, 'body': [['w', 1, 10, 1]], 'mode': 'db', 'scripts': []},
        {'init': {'1': 5}, 'body': [['m', 1, 2, 0, 1001]], 'mode': 'db', 'scripts': [[N_PRE + 1, 'op:2013']]},
    ]

    def cancel_sweep(self):
        """the task running the operation is cancelled at its k-th suspension, for EVERY k the real run exhibits (and one past)"""
        for fx in self.CANCEL_BODIES:
            total = self._run({**fx, 'log': 'off'})['suspensions']
            for k in range(1, total + 2):
                yield {**fx, 'cancel_at': k}

    # lengths of runs of CONSECUTIVE transient failures of one operation (the property puts no bound on the number of retries)
    RUN_LENGTHS = list(range(1, 13)) + [20, 50]
    SOAK_LENGTHS = [100, 200]         # thorough tier only

    def long_runs(self, lengths):
        """L consecutive attempts each failing with a transient error, then a clean one: (a) the same error at the same statement every
        time, for every transient error; (b) errors and statement positions cycling; (c) the run ended by a non-transient error"""
        tx = {'init': {'1': 5}, 'body': [['w', 1, 1], ['u', 2, 3, 1]]}
        single = {'init': {'1': 5}, 'body': [['w', 1, 10, 1]], 'mode': 'db'}
        tr = sorted(TRANSIENT)
        for L in lengths:
            for fx in (tx, single):
                n = len(fx['body'])
                for j, err in enumerate(tr):
                    if L <= 12 or j < 2:
                        yield {**fx, 'scripts': [[(j % (n + N_PRE + 1)), err]] * L}
                yield {**fx, 'scripts': [[(a * 3 + 1) % (n + N_PRE + 1), tr[a % len(tr)]] for a in range(L)]}
                yield {**fx, 'scripts': [[(a + 2) % (n + N_PRE + 1), tr[(a * 5 + 1) % len(tr)]] for a in range(L)] + [[N_PRE, 'op:1054']]}

    def random_stmt(self, rng, db_mode=False):
        kind = rng.choice(['u', 'u', 'w', 'w', 'i', 'r', 'm', 'm'] if db_mode else ['u', 'u', 'w', 'w', 'i', 'r', 'a', 'm'])
        if kind == 'm':
            size = rng.choice(self.MANY_SIZES) if rng.random() < 0.12 else rng.randint(1, 6)
            return ['m', rng.choice([1, 3, 100, 102]), rng.randint(-9, 9), int(rng.random() < 0.5), size] + \
                ([rng.choice(WRAPS)] if not db_mode and rng.random() < 0.2 else [])
        st = [kind, rng.choice([1, 2, 3, 4, 100, 101, 102, 103]), 0 if kind in 'ra' else rng.randint(-9, 9)]
        # Database.execute_insertone takes no query_name
        if rng.random() < 0.5 and not (db_mode and kind == 'i'):
            st.append(1)
        if not db_mode and rng.random() < 0.2:
            st = st + [0] * (4 - len(st)) + [rng.choice(WRAPS)]
        return st

    def random_case(self, rng):
        init = {str(k): rng.randint(-5, 20) for k in rng.sample([1, 2, 3, 100, 101, 102], rng.randint(0, 4))}
        db_mode = rng.random() < 0.15
        if db_mode:
            body = [self.random_stmt(rng, True)]
        else:
            body = [self.random_stmt(rng) for _ in range(rng.choice([0, 1, 2, 2, 3, 3, 4, 5]))]
        n = len(body)
        scripts = []
        for _ in range(rng.choice([0, 1, 1, 2, 2, 3, 4, 6]) if rng.random() < 0.9 else rng.randint(7, 16)):
            r = rng.random()
            if r < 0.1:
                scripts.append(None)
            else:
                err = rng.choice(sorted(TRANSIENT)) if rng.random() < 0.75 else rng.choice(OTHER)
                # half of the faults aim at a body statement (where the instrumented path lives), the rest anywhere incl. one past COMMIT
                idx = rng.randint(N_PRE, n + N_PRE - 1) if n and rng.random() < 0.5 else rng.randint(0, n + N_PRE + 1)
                scripts.append([idx, err])
        c = {'init': init, 'body': body, 'scripts': scripts, 'log': rng.choice(self.LOGS)}
        if rng.random() < 0.08:
            c['cancel_at'] = rng.randint(1, 4 + 3 * len(body) + 6 * len(scripts))
        if db_mode:
            c['mode'] = 'db'
        return c

    def cases(self, rng, n, tier):
        ex = list(self.exhaustive())
        if tier == 'thorough':
            ex += list(self.long_runs(self.SOAK_LENGTHS))
        yield from ex
        for _ in range(max(0, n - len(ex))):
            yield self.random_case(rng)

    def search_cases(self, rng, n, hint):
        yield from self.exhaustive()
        for _ in range(n):
            yield self.random_case(rng)

    # -- model -------------------------------------------------------------------------------------
    def model_lines(self, c):
        init = ' '.join(f'{k}={v}' for k, v in sorted(c['init'].items(), key=lambda kv: int(kv[0])))
        body = ' '.join(['n'] * N_PRE + [f'{st[0]}:{st[1]}:{st[2]}' + (f':{st[4]}' if st[0] == 'm' else '') + (':q' if len(st) > 3 and st[3] else '') +
                                         (':' + wrap_of(st) if wrap_of(st) else '') for st in c['body']])
        scripts = ' '.join('-' if s is None else f'{s[0]}:{s[1]}' for s in c['scripts'])
        if c.get('cancel_at'):
            return []
        return [f'{init} | {body} | {scripts}']

    # -- implementation ------------------------------------------------------------------------------
    LOG_LEVELS = {'debug': logging.DEBUG, 'info': logging.INFO, 'warning': logging.WARNING, 'off': logging.CRITICAL + 1}

    def _run(self, c, break_connection=False):
        """The gear.database logger is ENABLED as a deployment has it (case field 'log': 'debug' (default) / 'info' (what the services
        configure) / 'warning' (Python's default) / 'off'), with a handler that renders and discards the records: what the retry
        wrapper does while logging is part of the code under test."""
        lg = logging.getLogger('gear.database')
        saved_log = (lg.level, lg.propagate, list(lg.handlers), logging.root.manager.disable)
        lg.setLevel(self.LOG_LEVELS[c.get('log', 'debug')])
        lg.propagate = False
        lg.handlers = [self.sink]
        logging.disable(logging.NOTSET)
        try:
            return self._run1(c, break_connection)
        finally:
            lg.setLevel(saved_log[0])
            lg.propagate = saved_log[1]
            lg.handlers = saved_log[2]
            logging.disable(saved_log[3])

    def _run1(self, c, break_connection=False):
        gd = self.gd
        fakepool = self.fakepool
        db = self.MiniDB(rng=random.Random(0), clock=lambda: 0.0)
        db.create_table(SCHEMA)
        for k, v in c['init'].items():
            db.load_rows(table_of(int(k)), [{'k': int(k), 'v': v}])
        scripts = c['scripts']
        state = {'attempt': 0, 'idx': 0, 'fired': [], 'commits': 0, 'task': None, 'suspensions': 0}

        def hook(i, sql):
            exc = hook1(i, sql)
            if sql == 'COMMIT' and exc is None:
                state['commits'] += 1       # this COMMIT reaches the server
            return exc

        def hook1(i, sql):
            if sql == 'ROLLBACK':
                return None      # the client's rollback after a failed attempt is not a fault position
            if sql == '<acquire>':
                state['attempt'] += 1
                state['idx'] = 0
            a = state['attempt']
            idx = state['idx']
            state['idx'] += 1
            if a - 1 < len(scripts) and scripts[a - 1] is not None and scripts[a - 1][0] == idx \
                    and not any(f[0] == a for f in state['fired']):
                state['fired'].append((a, idx, scripts[a - 1][1]))
                if scripts[a - 1][1] == 'base:0':
                    # cancellation of the task that runs the operation, delivered at this statement's round trip (fakepool yields to
                    # the event loop between consulting this hook and executing the statement)
                    state['task'].cancel()
                    return None
                return self.make_exc(scripts[a - 1][1])
            return None

        out = {}
        reads = []      # per attempt: what the SELECT statements of the body returned

        def stmt(st):
            """(method name, sql, args, query_name) of one body statement"""
            kind, k, d = st[0], st[1], st[2]
            qn = f'c27_{kind}' if len(st) > 3 and st[3] else None
            t = table_of(k)
            if kind == 'u':
                return 'execute_many', f'INSERT INTO {t} (k, v) VALUES (%s, %s) ON DUPLICATE KEY UPDATE v = v + VALUES(v)', [(k, d)], qn
            if kind == 'm':
                return ('execute_many', f'INSERT INTO {t} (k, v) VALUES (%s, %s) ON DUPLICATE KEY UPDATE v = v + VALUES(v)',
                        [(k + j % 2, d) for j in range(st[4])], qn)
            if kind == 'i':
                return 'execute_insertone', f'INSERT INTO {t} (k, v) VALUES (%s, %s)', (k, d), qn
            if kind == 'w':
                return 'execute_update', f'UPDATE {t} SET v = v + %s WHERE k = %s', (d, k), qn
            if kind == 'r':
                return 'execute_and_fetchone', f'SELECT v FROM {t} WHERE k = %s', (k,), qn
            if kind == 'a':
                return 'execute_and_fetchall', f'SELECT v FROM {t} WHERE k = %s', (k,), qn
            raise ValueError(kind)

        async def main():
            g = await fakepool.make_database(db)
            g.pool.faults = hook

            @gd.transaction(g)
            async def op(tx):
                mine = []
                reads.append(mine)
                for st in c['body']:
                    meth, sql, args, qn = stmt(st)
                    kw = {} if qn is None else {'query_name': qn}
                    w = wrap_of(st)
                    try:
                        if meth == 'execute_and_fetchall':
                            mine.append([r['v'] async for r in tx.execute_and_fetchall(sql, args, **kw)])
                        elif meth == 'execute_and_fetchone':
                            r = await tx.execute_and_fetchone(sql, args, **kw)
                            mine.append([] if r is None else [r['v']])
                        else:
                            await getattr(tx, meth)(sql, args, **kw)
                    except self.err.MySQLError as e:
                        if w == 'from':
                            raise AppError(f'statement {st[0]} failed') from e
                        if w == 'raise':
                            raise AppError(f'statement {st[0]} failed')
                        raise
                return 'done'

            async def single():
                """mode 'db': the one statement through the retry-wrapped Database method of the same name"""
                (st,) = c['body']
                meth, sql, args, qn = stmt(st)
                if meth == 'execute_insertone':
                    assert qn is None
                    await g.execute_insertone(sql, args)
                elif meth == 'execute_and_fetchone':
                    r = await g.execute_and_fetchone(sql, args, qn)
                    reads.append([[] if r is None else [r['v']]])
                elif meth == 'execute_many':
                    await g.execute_many(sql, args, query_name=qn)
                else:
                    await g.execute_update(sql, args, qn)
                return 'done'

            def on_suspend(k):
                # k-th time the operation's task hands control back to the event loop (a statement's round trip, the shielded
                # commit / rollback, the back-off sleep between attempts, ...); 'cancel_at': cancel it at exactly that point
                state['suspensions'] = k
                if k == c.get('cancel_at'):
                    asyncio.get_event_loop().call_soon(state['task'].cancel)

            state['task'] = asyncio.ensure_future(aloop.stepped(single() if c.get('mode') == 'db' else op(), on_suspend))
            try:
                r = await state['task']
                assert r == 'done'
                out['result'] = 'ok'
            except BaseException as e:   # noqa: BLE001
                out['result'] = 'err:' + self.name_of(e)
            for _ in range(30):         # the shielded commit / rollback and the release of the connection finish on their own
                await asyncio.sleep(0)
            await g.async_close()

        saved = fakepool.lost_connection_breaks_connection
        saved_rt = fakepool.statements_are_round_trips
        fakepool.lost_connection_breaks_connection = break_connection
        fakepool.statements_are_round_trips = True
        loop = aloop.VLoop()
        try:
            asyncio.set_event_loop(loop)
            loop.run_until_complete(asyncio.wait_for(main(), 100000))
        finally:
            fakepool.lost_connection_breaks_connection = saved
            fakepool.statements_are_round_trips = saved_rt
            asyncio.set_event_loop(None)
            loop.close()
        out['attempts'] = state['attempt']
        out['commits'] = state['commits']
        out['suspensions'] = state['suspensions']
        out['fired'] = state['fired']
        rows = {}
        for t in ('ta', 'tb'):
            for r in db.tables[t]:
                rows[r['k']] = r['v']
        out['db'] = rows
        out['reads'] = reads[-1] if reads else []
        return out

    def impl(self, c):
        o = self._run(c)
        if c.get('cancel_at'):
            # cancellation at the k-th suspension of the task: positions are those of the REAL code (round trips, shielded commit,
            # back-off sleeps); the model has no notion of them -- these cases are judged by the oracle alone
            if len(self._stepped) > 20000:
                self._stepped.clear()
            self._stepped[json.dumps(c, sort_keys=True)] = o
            return []
        dbs = ','.join(f'{k}={v}' for k, v in sorted(o['db'].items()))
        return [f"attempts={o['attempts']} result={o['result']} db={dbs}"]

    # -- oracle --------------------------------------------------------------------------------------
    @staticmethod
    def apply_body(init, body, reads=None):
        """the body applied once to the initial rows: (rows, None) or (None, 'integ:1062'); `reads` collects what its SELECTs see"""
        d = {int(k): v for k, v in init.items()}
        for st in body:
            kind, k, x = st[0], st[1], st[2]
            if kind == 'u':
                d[k] = d.get(k, 0) + x
            elif kind == 'm':
                for j in range(st[4]):
                    d[k + j % 2] = d.get(k + j % 2, 0) + x
            elif kind == 'i':
                if k in d:
                    return None, escaping('integ:1062', st)
                d[k] = x
            elif kind in 'ra':
                if reads is not None:
                    reads.append([d[k]] if k in d else [])
            elif k in d:
                d[k] = d[k] + x
        return d, None

    def oracle(self, c, out):
        if out and out[0].startswith('IMPL-EXC'):
            return out[0]
        o = self._run(c)
        init = {int(k): v for k, v in c['init'].items()}
        # what left the body: the injected error, or the application error the body raises in its place at a guarded statement
        fired = {a: (idx, escaping(err, c['body'][idx - N_PRE] if N_PRE <= idx < N_PRE + len(c['body']) else None)) for a, idx, err in o['fired']}
        n = o['attempts']
        stepped = bool(c.get('cancel_at'))
        cancelled = o['result'] == 'err:base:0'
        commit_idx = len(c['body']) + N_PRE
        want_reads = []
        expect, own_err = self.apply_body(c['init'], c['body'], want_reads)
        # however the operation ended (returned, MySQL error, BaseException, cancellation): all of the body or nothing of it
        if o['db'] != init and o['db'] != expect:
            return (f'partial writes: the operation {"returned" if o["result"] == "ok" else "raised " + o["result"]} and left the tables '
                    f'{o["db"] if len(o["db"]) < 8 else "..."}: neither the initial rows {init if len(init) < 8 else "..."} nor the whole body '
                    f'applied once {expect if expect is None or len(expect) < 8 else "..."} (attempts={n}, COMMITs sent={o["commits"]}, fired={o["fired"]}'
                    f'{", cancelled at suspension " + str(c["cancel_at"]) if stepped else ""})')
        if stepped and o['result'] not in ['ok', 'err:base:0', 'err:' + str(own_err)] + ['err:' + e for _, e in fired.values() if e not in TRANSIENT]:
            return f'cancelling the task at its suspension {c["cancel_at"]} made the caller see {o["result"]} (fired={o["fired"]})'
        # one logical operation = one transaction: whatever was retried, exactly one COMMIT reaches the server when the call returns and
        # none when it raises (a second committed transaction makes the writes of the first visible and durable on their own).  The one
        # failure that may follow a COMMIT is the cancellation of the calling task while that COMMIT is in flight (gear shields it).
        if o['result'] == 'ok':
            ok_commits = (1,)
        elif cancelled and (stepped or (n in fired and fired[n] == (commit_idx, 'base:0'))):
            ok_commits = (0, 1) if stepped else (1,)
        else:
            ok_commits = (0,)
        if o['commits'] not in ok_commits:
            return (f'the operation {"returned" if o["result"] == "ok" else "raised " + o["result"]} after sending {o["commits"]} COMMITs '
                    f'(connections taken: {n}, faults fired: {o["fired"]}{", cancelled at suspension " + str(c["cancel_at"]) if stepped else ""}); '
                    f'a transactional operation commits once as a whole, or not at all when it fails; '
                    f'tables afterwards {o["db"] if len(o["db"]) < 8 else "..."}, initially {init if len(init) < 8 else "..."}')
        # retried <=> transient
        for a in range(1, n):
            if a not in fired:
                return f'attempt {a} of {n} was retried although no injected error fired in it'
            if fired[a][1] not in TRANSIENT:
                return (f'attempt {a} failed with {fired[a][1]} at statement {fired[a][0]}, which is not a transient error, and was retried'
                        f' (faults injected: {o["fired"]})')
        if n in fired and not (stepped and cancelled):
            idx, err = fired[n]
            if err in TRANSIENT:
                return f'the operation was not retried after transient error {err} at statement {idx} of attempt {n} (result {o["result"]})'
            if o['result'] != 'err:' + err:
                return f'attempt {n} failed with {err} but the caller saw {o["result"]}'
        if n not in fired and not (stepped and cancelled):
            want = 'ok' if own_err is None else 'err:' + own_err
            if o['result'] != want:
                return f'fault-free attempt {n}: caller saw {o["result"]}, expected {want}'
        # atomicity: all (the COMMIT went out) or nothing
        if o['result'] == 'ok':
            if o['db'] != expect:
                return f'after success the tables are {o["db"]}, expected the body applied exactly once: {expect} (attempts={n}, fired={o["fired"]})'
            if o['reads'] != want_reads:
                return (f'after success the SELECTs of the committed attempt returned {o["reads"]}, one execution of the body on the initial rows '
                        f'reads {want_reads} (attempts={n}, fired={o["fired"]})')
        elif o['commits'] == 1:
            if o['db'] != expect:
                return (f'cancelled while the COMMIT was in flight: the tables are {o["db"]}, expected the whole body applied: {expect} '
                        f'(fired={o["fired"]})')
        elif o['db'] != init:
            return f'after giving up with {o["result"]} the tables are {o["db"]}, expected the initial rows {init} (fired={o["fired"]})'
        return None

    def classify(self, c, out):
        line = out[0] if out else ''
        tags = []
        if c.get('cancel_at'):
            o = self._stepped.get(json.dumps(c, sort_keys=True))
            if o is not None:
                tags.append('cancel-at-suspension:' + ('delivered' if o['result'] == 'err:base:0' else 'too-late' if o['result'] == 'ok' else 'after-error')
                            + (':commit-sent' if o['commits'] else ''))
                line = f"attempts={o['attempts']} result={o['result']}"
        if line.startswith('attempts='):
            a = int(line.split()[0].split('=')[1])
            tags.append(f'attempts={min(a, 4)}')
            r = a - 1       # every attempt but the last one was followed by a retry
            tags.append('consecutive-retries=' + (f'{r:02d}' if r <= 12 else '13-19' if r < 20 else '20-49' if r < 50 else '50-99' if r < 100 else '100+'))
            tags.append('result=' + ('ok' if 'result=ok' in line else 'err'))
        for s in c['scripts']:
            if s is not None and s[1] in BASE:
                tags.append(('task-cancelled@' if s[1] == 'base:0' else 'BaseException@') +
                            ('acquire' if s[0] == 0 else 'start' if s[0] == 1 else 'commit' if s[0] == len(c['body']) + N_PRE else
                             'beyond' if s[0] > len(c['body']) + N_PRE else 'body-stmt-%d' % min(s[0] - N_PRE + 1, 4)))
        for s in c['scripts']:
            if s is not None:
                n = len(c['body'])
                where = 'acquire' if s[0] == 0 else 'start' if s[0] == 1 else 'commit' if s[0] == n + N_PRE else 'beyond' if s[0] > n + N_PRE else 'body'
                tags.append('fault@' + where)
                tags.append('err=' + s[1])
        n = len(c['body'])
        tags.append('mode=' + c.get('mode', 'tx'))
        tags.append('gear.database-logger=' + c.get('log', 'debug'))
        for s in c['scripts']:
            if s is not None and N_PRE <= s[0] < n + N_PRE:
                st = c['body'][s[0] - N_PRE]
                tags.append('fault@body:' + ('query_name' if len(st) > 3 and st[3] else 'plain') + ':' + st[0])
        if any(len(st) > 3 and st[3] for st in c['body']):
            tags.append('has-query_name')
        for sc in c['scripts']:
            if sc is not None and N_PRE <= sc[0] < n + N_PRE and wrap_of(c['body'][sc[0] - N_PRE]):
                tags.append(f'fault@guarded-stmt:{wrap_of(c["body"][sc[0] - N_PRE])}:' +
                            ('transient' if sc[1] in TRANSIENT else 'base' if sc[1] in BASE else 'other'))
        for st in c['body']:
            if st[0] == 'm':
                tags.append('execute_many rows=' + ('1' if st[4] == 1 else '2-6' if st[4] <= 6 else str(st[4])))
        nontrivial = any(s is not None and s[0] <= len(c['body']) + N_PRE for s in c['scripts'])
        return (json.dumps(c, sort_keys=True) if nontrivial else None, tags)

    def finding_key(self, c, msg):
        errs = sorted({s[1] for s in c['scripts'] if s is not None})
        return 'errs=' + ','.join(errs) + ' ' + msg.split(' at statement')[0][:60]

    def shrink(self, c, fails):
        cur = dict(c)
        # prefer a witness that shows partial writes over one that only shows a COMMIT too many: move the fault of the failing case
        # to the later statements of the same body
        if fails(cur) and 'partial writes' not in (self.oracle(cur, self.impl(cur)) or ''):
            for i, sc in enumerate(cur['scripts']):
                if sc is None:
                    continue
                for idx in range(N_PRE, len(cur['body']) + N_PRE):
                    trial = {**cur, 'scripts': cur['scripts'][:i] + [[idx, sc[1]]] + cur['scripts'][i + 1:]}
                    if 'partial writes' in (self.oracle(trial, self.impl(trial)) or '') and fails(trial):
                        cur = trial
                        break
        if 'partial writes' in (self.oracle(cur, self.impl(cur)) or ''):
            any_failure = fails

            def fails(x):       # noqa: F811  keep showing partial writes while shrinking
                return any_failure(x) and 'partial writes' in (self.oracle(x, self.impl(x)) or '')
        if fails(cur):
            cur['scripts'] = generic_shrink_list(cur['scripts'], lambda s: fails({**cur, 'scripts': s}))
            cur['body'] = generic_shrink_list(cur['body'], lambda b: fails({**cur, 'body': b})) if len(cur['body']) > 1 else cur['body']
            for i, st in enumerate(cur['body']):     # drop query_name flags that do not matter
                if len(st) > 3 and st[3]:
                    trial = {**cur, 'body': cur['body'][:i] + [st[:3] + ([0] + st[4:] if len(st) > 4 else [])] + cur['body'][i + 1:]}
                    if fails(trial):
                        cur = trial
            for k in list(cur['init']):
                trial = {**cur, 'init': {a: b for a, b in cur['init'].items() if a != k}}
                if fails(trial):
                    cur = trial
        return cur

    def extra_coverage(self):
        """informational: what happens under the other plausible model of aiomysql (connection closed after 2013)"""
        try:
            c = {'init': {'1': 5}, 'body': [['u', 1, 2]], 'scripts': [[2, 'op:2013']]}
            o = self._run(c, break_connection=True)
            note = (f"with fakepool.lost_connection_breaks_connection=True (aiomysql closing the connection on a lost connection, as its source "
                    f"is remembered to do) an OperationalError(2013) at a body statement ends with attempts={o['attempts']} result={o['result']} "
                    f"db={o['db']}: rollback() raises InterfaceError inside Transaction._aexit_1, which replaces the 2013 and is not retryable. "
                    f"Not part of the verdict (the library is not available to confirm).")
        except Exception as e:   # noqa: BLE001
            note = f'probe failed: {type(e).__name__}: {e}'
        return {'aiomysql_closed_connection_probe': note, 'error_list': ERRS, 'transient': sorted(TRANSIENT),
                'gear_database_log_records_rendered': self.records}


PROP = C27()

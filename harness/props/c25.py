"""C25 Resource-size strings parse to their decimal value.

T tie: the three regex patterns, conv_factor (hailtop/batch_client/parse.py) and memory_types (batch/batch/globals.py) are
re-extracted into lean/HailVerif/Generated/SizeGrammar.lean on every run; a pattern that is not of the shape the model's
matcher implements breaks the tie.  C tie: SizeParse.parseCpu/parseMemory/parseStorage/serverAccepts* vs the real
parse_cpu_in_mcpu / parse_memory_in_bytes / parse_storage_in_bytes and the real job validator of batch/front_end/validate.py."""
import ast
import itertools
import json
import os
import re

from .. import loader
from ..framework import LEAN, MachineryError, Prop, TieBroken, write_if_changed

DIGITS = '0123456789'
# the documented grammar of the property: decimal (1000^n) and binary (1024^n) units, optional trailing B; cpu: optional m
UNITS = {'K': 1000, 'M': 1000 ** 2, 'G': 1000 ** 3, 'T': 1000 ** 4, 'P': 1000 ** 5,
         'Ki': 1024, 'Mi': 1024 ** 2, 'Gi': 1024 ** 3, 'Ti': 1024 ** 4, 'Pi': 1024 ** 5}
MEM_TAILS = {'': 1, 'B': 1}
for _u, _f in UNITS.items():
    MEM_TAILS[_u] = _f
    MEM_TAILS[_u + 'B'] = _f
MEMORY_WORDS = ('lowmem', 'standard', 'highmem')


def spec_number(s):
    """hand-written reader of `[+]number` — returns (numerator, fractional digit count, rest) or None. No `re`."""
    i = 1 if s[:1] == '+' else 0
    j = i
    while j < len(s) and s[j] in DIGITS:
        j += 1
    ip = s[i:j]
    fp = ''
    if j < len(s) and s[j] == '.':
        k = j + 1
        while k < len(s) and s[k] in DIGITS:
            k += 1
        fp = s[j + 1:k]
        if fp == '':
            return None
        j = k
    elif ip == '':
        return None
    return int(ip + fp), len(fp), s[j:]


def spec_cpu(s):
    """exact millicores denoted by s, rounded down; None if s is not a cpu literal"""
    r = spec_number(s)
    if r is None or r[2] not in ('', 'm'):
        return None
    n, k, rest = r
    return (n * 1000) // (10 ** k * (1000 if rest == 'm' else 1))


def spec_bytes(s):
    """exact bytes denoted by s, rounded up; None if s is not a memory/storage literal"""
    r = spec_number(s)
    if r is None or r[2] not in MEM_TAILS:
        return None
    n, k, rest = r
    return -((-n * MEM_TAILS[rest]) // 10 ** k)


# ---- translator ---------------------------------------------------------------------------------------------------

def _norm(sub):
    """re._parser tree -> plain nested tuples"""
    out = []
    for op, av in sub:
        out.append((str(op), _norm_av(av)))
    return tuple(out)


def _norm_av(av):
    if hasattr(av, 'data') and hasattr(av, 'state'):
        return _norm(av)
    if isinstance(av, (tuple, list)):
        return tuple(_norm_av(x) for x in av)
    if av is None or isinstance(av, (int, str)):
        return av if not hasattr(av, 'name') else str(av)
    return str(av)


def _language(nodes, limit=64):
    """finite language of a normalised sub-pattern made of literals, positive classes, bounded repeats, branches, groups"""
    langs = ['']
    for op, av in nodes:
        if op == 'LITERAL':
            alts = [chr(av)]
        elif op == 'IN':
            alts = []
            for o2, a2 in av:
                if o2 == 'LITERAL':
                    alts.append(chr(a2))
                elif o2 == 'RANGE':
                    alts += [chr(c) for c in range(a2[0], a2[1] + 1)]
                else:
                    raise TieBroken(f'suffix class element {o2} is outside the translated subset')
        elif op == 'MAX_REPEAT':
            lo, hi, body = av
            if not isinstance(hi, int) or hi > 3:
                raise TieBroken('unbounded repeat inside the suffix group')
            one = _language(body, limit)
            alts = []
            for n in range(lo, hi + 1):
                alts += [''.join(t) for t in itertools.product(one, repeat=n)]
        elif op == 'SUBPATTERN':
            alts = _language(av[3], limit)
        elif op == 'BRANCH':
            alts = []
            for b in av[1]:
                alts += _language(b, limit)
        else:
            raise TieBroken(f'construct {op} inside the suffix group is outside the translated subset')
        langs = [a + b for a in langs for b in alts]
        if len(langs) > limit:
            raise TieBroken('suffix group accepts too many strings')
    seen = []
    for x in langs:
        if x not in seen:
            seen.append(x)
    return seen


def analyse_pattern(name, pat):
    """-> (suffix alternatives, trailing B allowed).  TieBroken unless pat is `[+]?((?:[0-9]*[.])?[0-9]+)(SUFFIX)?(B?)`."""
    import re._parser as sre
    try:
        tree = _norm(sre.parse(pat))
    except re.error as e:
        raise TieBroken(f'{name} does not compile: {e}')
    canon_sign = _norm(sre.parse('[+]?'))
    canon_num = _norm(sre.parse('(?:[0-9]*[.])?[0-9]+'))
    canon_b = _norm(sre.parse('B?'))
    items = list(tree)
    shape = f'{name} = {pat!r} is not of the shape [+]?((?:[0-9]*[.])?[0-9]+)(SUFFIX)?B? that SizeParse.matchSize implements'
    if len(items) not in (3, 4) or (items[0],) != canon_sign:
        raise TieBroken(shape)
    op, av = items[1]
    if op != 'SUBPATTERN' or av[0] != 1 or av[1] or av[2] or av[3] != canon_num:
        raise TieBroken(shape)
    op, av = items[2]
    if op != 'MAX_REPEAT' or av[0] != 0 or av[1] != 1 or len(av[2]) != 1 or av[2][0][0] != 'SUBPATTERN' or av[2][0][1][0] != 2 \
            or av[2][0][1][1] or av[2][0][1][2]:
        raise TieBroken(shape)
    sufs = _language(av[2][0][1][3])
    trailing_b = False
    if len(items) == 4:
        if (items[3],) != canon_b:
            raise TieBroken(shape)
        trailing_b = True
    for sf in sufs:
        if sf == '' or sf[0] in DIGITS + '.' or 'B' in sf or '+' in sf:
            raise TieBroken(f'{name}: suffix alternative {sf!r} makes the match ambiguous for the deterministic matcher of the model')
    return sufs, trailing_b


def _const_int(node):
    if isinstance(node, ast.Constant) and isinstance(node.value, int) and not isinstance(node.value, bool):
        return node.value
    if isinstance(node, ast.BinOp) and isinstance(node.op, (ast.Pow, ast.Mult, ast.Add, ast.LShift)):
        a, b = _const_int(node.left), _const_int(node.right)
        if isinstance(node.op, ast.Pow):
            if b > 64:
                raise TieBroken('exponent too large in conv_factor')
            return a ** b
        if isinstance(node.op, ast.Mult):
            return a * b
        if isinstance(node.op, ast.Add):
            return a + b
        return a << b
    raise TieBroken(f'conv_factor value {ast.dump(node)[:80]} is not an integer constant expression')


def _lean_str(s):
    out = []
    for ch in s:
        if ch == '\\':
            out.append('\\\\')
        elif ch == '"':
            out.append('\\"')
        elif ch == '\n':
            out.append('\\n')
        elif 32 <= ord(ch) < 127:
            out.append(ch)
        else:
            out.append('\\u{%x}' % ord(ch))
    return '"' + ''.join(out) + '"'


def extract(repo):
    path = os.path.join(repo, 'hail', 'python', 'hailtop', 'batch_client', 'parse.py')
    tree = ast.parse(open(path, encoding='utf-8').read())
    consts = {}
    compiled = {}
    conv = None
    for node in tree.body:
        tgt = val = None
        if isinstance(node, ast.AnnAssign) and isinstance(node.target, ast.Name):
            tgt, val = node.target.id, node.value
        elif isinstance(node, ast.Assign) and len(node.targets) == 1 and isinstance(node.targets[0], ast.Name):
            tgt, val = node.targets[0].id, node.value
        if tgt is None or val is None:
            continue
        if tgt.endswith('_REGEXPAT'):
            if not (isinstance(val, ast.Constant) and isinstance(val.value, str)):
                raise TieBroken(f'{tgt} is not a string literal')
            consts[tgt] = val.value
        elif tgt.endswith('_REGEX'):
            ok = (isinstance(val, ast.Call) and isinstance(val.func, ast.Attribute) and val.func.attr == 'compile'
                  and isinstance(val.func.value, ast.Name) and val.func.value.id == 're' and len(val.args) == 1 and not val.keywords
                  and isinstance(val.args[0], ast.Name))
            if not ok:
                raise TieBroken(f'{tgt} is not re.compile(<PATTERN NAME>) without flags')
            compiled[tgt] = val.args[0].id
        elif tgt == 'conv_factor':
            if not isinstance(val, ast.Dict):
                raise TieBroken('conv_factor is not a dict literal')
            conv = []
            for k, v in zip(val.keys, val.values):
                if not (isinstance(k, ast.Constant) and isinstance(k.value, str)):
                    raise TieBroken('conv_factor key is not a string literal')
                conv.append((k.value, _const_int(v)))
    for kind in ('CPU', 'MEMORY', 'STORAGE'):
        if f'{kind}_REGEXPAT' not in consts:
            raise TieBroken(f'{kind}_REGEXPAT not found in parse.py')
        if compiled.get(f'{kind}_REGEX') != f'{kind}_REGEXPAT':
            raise TieBroken(f'{kind}_REGEX is not compiled from {kind}_REGEXPAT')
    if conv is None:
        raise TieBroken('conv_factor not found in parse.py')
    gpath = os.path.join(repo, 'batch', 'batch', 'globals.py')
    mem_types = None
    for node in ast.parse(open(gpath, encoding='utf-8').read()).body:
        if isinstance(node, ast.Assign) and len(node.targets) == 1 and isinstance(node.targets[0], ast.Name) \
                and node.targets[0].id == 'memory_types':
            try:
                mem_types = list(ast.literal_eval(node.value))
            except ValueError:
                raise TieBroken('memory_types is not a literal')
    if mem_types is None or not all(isinstance(x, str) for x in mem_types):
        raise TieBroken('memory_types (batch/batch/globals.py) not found')
    return consts, conv, mem_types


def render_generated(consts, conv, mem_types):
    g = {k: analyse_pattern(f'{k}_REGEXPAT', consts[f'{k}_REGEXPAT']) for k in ('CPU', 'MEMORY', 'STORAGE')}

    def strs(xs):
        return '[' + ', '.join(_lean_str(x) for x in xs) + ']'

    lines = [
        '/-! GENERATED by harness/props/c25.py (`PROP.generate`) from hail/python/hailtop/batch_client/parse.py and',
        'batch/batch/globals.py — do not edit. -/',
        'namespace HailVerif.Generated.SizeGrammar',
        '',
        '/-- `conv_factor` -/',
        'def convFactor : List (String × Nat) :=',
        '  [' + ', '.join(f'({_lean_str(k)}, {v})' for k, v in conv) + ']',
        '',
    ]
    for kind, low in (('CPU', 'cpu'), ('MEMORY', 'memory'), ('STORAGE', 'storage')):
        sufs, tb = g[kind]
        lines += [
            f'/-- `{kind}_REGEXPAT`, of the shape `[+]?((?:[0-9]*[.])?[0-9]+)(SUFFIX)?B?`: the source text, the strings group 2 can match,',
            'and whether the trailing `B?` is present -/',
            f'def {low}Pattern : String := {_lean_str(consts[kind + "_REGEXPAT"])}',
            f'def {low}Suffixes : List String := {strs(sufs)}',
            f'def {low}TrailingB : Bool := {"true" if tb else "false"}',
            '',
        ]
    lines += [
        '/-- `memory_types` (batch/batch/globals.py): the words the job validator accepts for `memory` besides the pattern -/',
        f'def memoryTypes : List String := {strs(mem_types)}',
        '',
        'end HailVerif.Generated.SizeGrammar',
        '',
    ]
    return '\n'.join(lines), g


# ---- the check -------------------------------------------------------------------------------------------------------

SUFFIX_JUNK = ['cores', ' ', 'e3', 'm0', ' RAM', '/2', '\n', 'x', '.', 'B2', ' B', 'GiB RAM', 'ib', '0x', ';', '\t', '\x00', '\uff11', ',5', '..',
               'Gi Gi', 'mm', 'BB', '+1', '-1', ' cpu']
JUNK = ['.', '+', '-', 'e', 'E', ' ', '\n', '\t', 'B', 'b', 'i', 'I', 'k', 'K', 'm', 'M', 'g', 'G', '_', ',', '\uff11', '\u0663', '\xb2', '/', 'x', 'E3', 'e-3',
        'iB', 'BB', 'KB', 'mi', 'Mi', 'Ei', 'E', 'Z', 'Y', 'Bi', '\x00', '\ud800', ' B', '0x', 'inf', 'nan', '1_0']


class C25(Prop):
    id = 'C25'
    title = 'Resource-size strings parse to their decimal value'
    lean_props = ['HailVerif.Props.C25']
    driver = 'Driver/C25.lean'
    engine = 'E3-pure'
    design_ref = 'DESIGN.md §4 C25'
    technique = ('Lean 4 proof (exact rational arithmetic, Mathlib floor/ceil) about an executable model whose grammar tables are '
                 're-extracted from parse.py on every run + differential correspondence with the real parsers and the real job validator')
    level_text = ('Theorems for every well-formed size literal (any digit counts, leading zeros, every unit of the extracted tables) and every '
                  'string: a string is accepted iff it spells a literal of the grammar; parse_cpu = floor(exact value * 1000) (exactly value*1000 '
                  'with <= 3 fractional digits); parse_memory/storage = ceil(exact value * unit); no KeyError; unit table = 1000^n / 1024^n; '
                  'monotone; storage = memory; the server validator accepts exactly what the client parser accepts (plus the memory-type words). '
                  'Patterns, conv_factor and memory_types are regenerated from the source on every run (translator); the arithmetic and the '
                  'matcher are tied to the real functions by 50k directed strings (quick) / an exhaustive digit grid x all units (thorough).')
    level_note = ('Trusted: Lean kernel + Mathlib; the pattern-shape analyser (re._parser based) and AST table extractor; CPython re/fractions '
                  'semantics; the correspondence covers only generated strings. The proof is about the model, not the Python text.')
    budget = {'quick': 50000, 'thorough': 200000}
    search_budget = {'quick': 60000, 'thorough': 300000}
    rule = ('case = one string, given to all three parsers and to the server validators for resources.cpu/memory/storage. quick: exhaustive '
            'd.ddd (10k: the float-artefact family of cpu), d.dd x 10 units (10k), then random literals of the grammar (0-25 integer and '
            'fractional digits, leading zeros, +, every unit, B) and ~20% malformed strings (one-edit neighbours of literals, junk units, Unicode '
            'digits, Fraction-only spellings like 1e3/1_0, memory-type words, valid literal + junk suffix). Every string also goes through the '
            'hailctl config checks of query/batch_{driver,worker}_{cores,memory} (third party of "accept the same strings"). thorough adds the exhaustive grid: <=2 integer digits x <=3 '
            'fractional digits x (none, m, 10 units) and 8 representative integer parts x all 4-digit fractions x the same. non-trivial = '
            'accepted by a parser, or a number followed by an unaccepted tail; distinct by string')
    trusted = ['harness translator: AST extraction of *_REGEXPAT / conv_factor / memory_types and re._parser-based shape analysis of the patterns',
               'Mathlib (Nat.floor / Nat.ceil on ℚ)']
    assumptions = ['inputs are Python str', 'CPython re: the character class [0-9] in a str pattern matches ASCII digits only']

    def generate(self, repo):
        consts, conv, mem_types = extract(repo)
        text, g = render_generated(consts, conv, mem_types)
        changed = write_if_changed(os.path.join(LEAN, 'HailVerif', 'Generated', 'SizeGrammar.lean'), text)
        self.tie = {'patterns': consts, 'suffixes': {k: v[0] for k, v in g.items()}, 'trailing_B': {k: v[1] for k, v in g.items()},
                    'conv_factor_entries': len(conv), 'memory_types': mem_types, 'generated_file_changed': changed}
        return [f'Generated/SizeGrammar.lean {"rewritten" if changed else "unchanged"}: {len(conv)} conv_factor entries, suffixes cpu={g["CPU"][0]} '
                f'memory={len(g["MEMORY"][0])} storage={len(g["STORAGE"][0])}']

    def setup(self, repo):
        loader.install(repo)
        import hailtop.batch_client.parse as parse
        import batch.front_end.validate as validate
        from hailtop.utils.validate import ValidationError
        self.parse = parse
        self.validate = validate
        self.ValidationError = ValidationError
        self.resources = validate.job_validator['resources']
        # the third party: hailctl config's checks of query/batch_{driver,worker}_{cores,memory}
        import hailtop.hailctl.config.config_variables as cv
        from hailtop.config.variables import ConfigVariable as V
        table = cv.config_variables()
        self.cfg_checks = [(name, table[var].validation[0]) for name, var in (
            ('query/batch_driver_cores', V.QUERY_BATCH_DRIVER_CORES), ('query/batch_worker_cores', V.QUERY_BATCH_WORKER_CORES),
            ('query/batch_driver_memory', V.QUERY_BATCH_DRIVER_MEMORY), ('query/batch_worker_memory', V.QUERY_BATCH_WORKER_MEMORY))]
        self.repo = repo

    # ---- cases --------------------------------------------------------------------------------------
    @staticmethod
    def lit(plus, ip, fp, suf, b):
        s = ('+' if plus else '') + ip + ('.' + fp if fp else '') + (suf or '') + ('B' if b else '')
        return s

    def _digits(self, rng, allow_empty):
        r = rng.random()
        if allow_empty and r < 0.12:
            return ''
        if r < 0.75:
            n = rng.choice([1, 1, 2, 2, 3, 3, 4])
        elif r < 0.95:
            n = rng.randint(5, 9)
        else:
            n = rng.randint(10, 25)
        s = ''.join(rng.choice(DIGITS) for _ in range(n))
        if rng.random() < 0.15:
            s = '0' * rng.randint(1, 3) + s
        if rng.random() < 0.1:
            s = rng.choice(['0', '1', '9', '10', '99', '100', '999', '1000', '1023', '1024', '4095', '0001', '5'])
        return s

    def _random_literal(self, rng):
        kind = rng.random()
        ip = self._digits(rng, True)
        fp = self._digits(rng, False) if (ip == '' or rng.random() < 0.7) else ''
        if kind < 0.35:
            suf, b = rng.choice([None, None, 'm']), False
        else:
            suf, b = rng.choice([None] + list(UNITS)), rng.random() < 0.25
        return self.lit(rng.random() < 0.08, ip, fp, suf, b)

    def _malformed(self, rng):
        r = rng.random()
        if r < 0.08:
            w = rng.choice(MEMORY_WORDS)
            return rng.choice([w, w, w + ' ', w.upper(), w[:-1], ' ' + w, w + '\n', w + 'B'])
        if r < 0.4:
            # a valid literal followed by junk (what a check anchored only at the start lets through)
            return self._random_literal(rng) + rng.choice(SUFFIX_JUNK)
        s = self._random_literal(rng) if r < 0.9 else ''
        pos = rng.randint(0, len(s))
        m = rng.random()
        j = rng.choice(JUNK)
        if m < 0.5:
            return s[:pos] + j + s[pos:]
        if m < 0.75 and s:
            pos = min(pos, len(s) - 1)
            return s[:pos] + j + s[pos + 1:]
        if m < 0.9 and s:
            pos = min(pos, len(s) - 1)
            return s[:pos] + s[pos + 1:]
        return s + j

    def _selfcheck(self):
        # the oracle's own reader must agree with the way literals are spelled here
        for plus, ip, fp, suf, b in [(False, '1', '001', None, False), (True, '', '5', 'Gi', True), (False, '007', '', 'm', False),
                                     (False, '12', '50', 'K', False)]:
            s = self.lit(plus, ip, fp, suf, b)
            r = spec_number(s)
            if r != (int(ip + fp), len(fp), (suf or '') + ('B' if b else '')):
                raise MachineryError(f'oracle reader disagrees with the literal builder on {s!r}: {r}')

    def cases(self, rng, n, tier):
        self._selfcheck()
        emitted = 0
        for a in range(10):
            for f in range(1000):
                yield {'s': f'{a}.{f:03d}'}
                emitted += 1
        for a in range(10):
            for f in range(100):
                for u in UNITS:
                    yield {'s': f'{a}.{f:02d}{u}'}
                    emitted += 1
        if tier == 'thorough':
            ips = [''] + [str(d) for d in range(10)] + [f'{d:02d}' for d in range(100)]
            fps = [''] + [f'{d:0{w}d}' for w in (1, 2, 3) for d in range(10 ** w)]
            tails = ['', 'm'] + list(UNITS)
            for ip in ips:
                for fp in fps:
                    if ip == '' and fp == '':
                        continue
                    num = ip + ('.' + fp if fp else '')
                    for t in tails:
                        yield {'s': num + t}
            for ip in ['', '0', '1', '7', '12', '999', '1023', '4096']:
                for f in range(10000):
                    num = f'{ip}.{f:04d}'
                    for t in tails:
                        yield {'s': num + t}
        for _ in range(max(0, n - emitted)):
            if rng.random() < 0.2:
                yield {'s': self._malformed(rng)}
            else:
                yield {'s': self._random_literal(rng)}

    def search_cases(self, rng, n, hint):
        if hint and isinstance(hint.get('s'), str):
            s = hint['s']
            yield {'s': s}
            for i in range(len(s) + 1):
                for j in JUNK + list(DIGITS):
                    yield {'s': s[:i] + j + s[i:]}
                if i < len(s):
                    yield {'s': s[:i] + s[i + 1:]}
        # every unit with simple numbers, then the digit grid, then random
        for num in ['1', '2', '10', '1.5', '0.001', '.5', '1.07', '1.001']:
            for t in ['', 'm', 'B'] + list(UNITS) + [u + 'B' for u in UNITS] + ['E', 'Ei', 'k', 'mB', 'KiBB']:
                yield {'s': num + t}
        for a in range(10):
            for f in range(1000):
                for t in ('', 'm', 'K', 'Ki', 'G'):
                    yield {'s': f'{a}.{f:03d}{t}'}
        for _ in range(n):
            yield {'s': self._malformed(rng) if rng.random() < 0.3 else self._random_literal(rng)}

    # ---- model / implementation ------------------------------------------------------------------------
    def model_lines(self, c):
        return [' '.join(['p'] + ['%x' % ord(ch) for ch in c['s']])]

    @staticmethod
    def _canon(v):
        if v is None:
            return 'none'
        if isinstance(v, int) and not isinstance(v, bool):
            return str(v)
        return 'bad:' + repr(v)[:40]

    def _server(self, key, s):
        try:
            self.resources.validate('resources', {key: s})
        except self.ValidationError:
            return '0'
        return '1'

    def impl(self, c):
        s = c['s']
        p = self.parse
        return ['cpu=%s mem=%s sto=%s srv=%s%s%s cfg=%s' % (
            self._canon(p.parse_cpu_in_mcpu(s)), self._canon(p.parse_memory_in_bytes(s)), self._canon(p.parse_storage_in_bytes(s)),
            self._server('cpu', s), self._server('memory', s), self._server('storage', s),
            ''.join('1' if check(s) else '0' for _name, check in self.cfg_checks))]

    @staticmethod
    def _fields(line):
        return dict(kv.split('=', 1) for kv in line.split(' '))

    def oracle(self, c, out):
        if out[0].startswith('IMPL-EXC'):
            return f'{out[0]} on {c["s"]!r}'
        s = c['s']
        f = self._fields(out[0])
        want_cpu, want_b = spec_cpu(s), spec_bytes(s)
        for name, fn, want, unit in (('cpu', 'parse_cpu_in_mcpu', want_cpu, 'millicores (rounded down)'),
                                     ('mem', 'parse_memory_in_bytes', want_b, 'bytes (rounded up)'),
                                     ('sto', 'parse_storage_in_bytes', want_b, 'bytes (rounded up)')):
            got = f[name]
            if want is None and got != 'none':
                return f'{fn}({s!r}) = {got} although the string is not in the documented size grammar'
            if want is not None and got != str(want):
                return f'{fn}({s!r}) = {got} but the string denotes exactly {want} {unit}'
        srv = f['srv']
        for i, (key, want) in enumerate((('cpu', want_cpu), ('memory', want_b), ('storage', want_b))):
            accepted = srv[i] == '1'
            client = want is not None or (key == 'memory' and s in MEMORY_WORDS)
            if accepted != client:
                return (f'server job validator {"accepts" if accepted else "rejects"} resources.{key} = {s!r} but the client-side grammar '
                        f'{"accepts" if client else "rejects"} it')
        for bit, (name, _check) in zip(f['cfg'], self.cfg_checks):
            accepted = bit == '1'
            client = (want_cpu is not None) if name.endswith('cores') else (want_b is not None or s in MEMORY_WORDS)
            if accepted != client:
                return (f'hailctl config {"accepts" if accepted else "rejects"} {name} = {s!r} but the client parser and the server '
                        f'validator {"accept" if client else "reject"} it')
        return None

    def classify(self, c, out):
        s = c['s']
        if out[0].startswith('IMPL-EXC'):
            return (s, ['impl-exception'])
        f = self._fields(out[0])
        tags = ['cpu=' + ('acc' if f['cpu'] != 'none' else 'rej'), 'bytes=' + ('acc' if f['mem'] != 'none' else 'rej')]
        r = spec_number(s)
        if r is None:
            tags.append('number=unreadable')
            return (None, tags)
        n, k, rest = r
        tags.append('frac-digits=' + (str(k) if k <= 4 else '5+'))
        tags.append('tail=' + (rest if rest in MEM_TAILS or rest == 'm' else 'other'))
        if f['cpu'] != 'none' and (n * 1000) % (10 ** k * (1000 if rest == 'm' else 1)):
            tags.append('cpu-rounded-down')
        if f['mem'] != 'none' and rest in MEM_TAILS and (n * MEM_TAILS[rest]) % 10 ** k:
            tags.append('bytes-rounded-up')
        return (s, tags)

    def finding_key(self, c, msg):
        return json.dumps(c, sort_keys=True)

    def shrink(self, c, fails):
        if 'static' in c:
            return c
        cur = c['s']
        changed = True
        while changed:
            changed = False
            for i in range(len(cur)):
                cand = cur[:i] + cur[i + 1:]
                if fails({'s': cand}):
                    cur, changed = cand, True
                    break
        for i in range(len(cur)):
            if cur[i] in DIGITS and cur[i] not in '01':
                for d in '01':
                    cand = cur[:i] + d + cur[i + 1:]
                    if fails({'s': cand}):
                        cur = cand
                        break
        return {'s': cur}

    # ---- client and server share the grammar --------------------------------------------------------------
    def extra_checks(self, repo, tier, rng):
        fails = []
        info = {}
        # (a) AST: validate.py takes the compiled regexes from parse.py and does not rebind them
        vpath = os.path.join(repo, 'batch', 'batch', 'front_end', 'validate.py')
        tree = ast.parse(open(vpath, encoding='utf-8').read())
        imported = set()
        rebound = set()
        names = {'CPU_REGEX', 'MEMORY_REGEX', 'STORAGE_REGEX'}
        for node in ast.walk(tree):
            if isinstance(node, ast.ImportFrom) and node.module == 'hailtop.batch_client.parse':
                imported |= {a.name for a in node.names if (a.asname or a.name) == a.name}
            elif isinstance(node, (ast.Assign, ast.AnnAssign, ast.AugAssign)):
                tgts = node.targets if isinstance(node, ast.Assign) else [node.target]
                rebound |= {t.id for t in tgts if isinstance(t, ast.Name)} & names
        info['validate_py_imports_from_parse'] = sorted(imported & (names | {n + 'PAT' for n in names}))
        for n in sorted(names):
            if n not in imported or n in rebound:
                fails.append(({'static': f'validate.py:{n}'}, f'batch/front_end/validate.py does not use {n} imported from hailtop.batch_client.parse '
                              '(client and server grammars are no longer the same object)'))
        # (b) import: the validator objects for resources.cpu/memory/storage hold the very compiled patterns of parse.py
        def regex_validators(v, depth=0):
            if hasattr(v, 're_obj'):
                yield v
            elif depth < 4:
                for attr in ('checkers', 'validators', 'checker', 'wrapped'):
                    sub = getattr(v, attr, None)
                    if isinstance(sub, dict):
                        sub = [x[0] if isinstance(x, tuple) else x for x in sub.values()]
                    if isinstance(sub, (list, tuple)):
                        for x in sub:
                            yield from regex_validators(x, depth + 1)
                    elif sub is not None:
                        yield from regex_validators(sub, depth + 1)
        for key, obj in (('cpu', self.parse.CPU_REGEX), ('memory', self.parse.MEMORY_REGEX), ('storage', self.parse.STORAGE_REGEX)):
            rvs = list(regex_validators(self.resources[key]))
            info[f'resources.{key}'] = [{'same_object': rv.re_obj is obj, 'pattern': rv.re_obj.pattern} for rv in rvs]
            if len(rvs) != 1:
                fails.append(({'static': f'resources.{key}'}, f'job validator for resources.{key} holds {len(rvs)} regex validators (expected 1)'))
            elif rvs[0].re_obj.pattern != obj.pattern or rvs[0].re_obj.flags != obj.flags:
                fails.append(({'static': f'resources.{key}'}, f'job validator for resources.{key} matches {rvs[0].re_obj.pattern!r} but the parser '
                              f'matches {obj.pattern!r}'))
        self.share_info = info
        return fails

    def extra_coverage(self):
        return {'translator': getattr(self, 'tie', {}), 'client_server': getattr(self, 'share_info', {})}


PROP = C25()

"""C11 Fair-share allocation is max-min fair — correspondence of FairShare.fairShare with the real
batch.driver.instance_collection.pool.PoolScheduler._compute_fair_share, oracle = exact rational water-filling."""
import json
import os
from fractions import Fraction

from .. import loader
from ..framework import Prop, generic_shrink_list

POOL_PY = 'batch/batch/driver/instance_collection/pool.py'

# environment read at import time by batch.batch_configuration / batch.cloud.utils / gear.profiling (values are never used here)
_ENV = dict(CLOUD='gcp', HAIL_QUERY_STORAGE_URI='gs://verif', HAIL_QUERY_ACCEPTABLE_JAR_SUBFOLDER='/jars',
            HAIL_DEFAULT_NAMESPACE='default', HAIL_SCOPE='test', HAIL_DOCKER_ROOT_IMAGE='x', HAIL_DOCKER_PREFIX='x',
            KUBERNETES_SERVER_URL='x', INTERNAL_GATEWAY_IP='127.0.0.1', HAIL_BATCH_STORAGE_URI='gs://verif', HAIL_SHA='x')


def _drive(coro):
    """run a coroutine that never really suspends (the fake db yields without awaiting)"""
    try:
        coro.send(None)
    except StopIteration as e:
        return e.value
    coro.close()
    raise RuntimeError('_compute_fair_share suspended on something other than the fake db')


def _njobs(cores):
    """a job count consistent with a core total (n_*_jobs are 32-bit INT columns)"""
    return min((cores + 249) // 250, 1000)


class _GatedDb:
    """the real gear Database (over minisql) with one scheduling point per query, standing for the network round trip:
    the n-th query waits until the harness opens gate n, so that overlapping calls can be resumed in a chosen order"""

    def __init__(self, db):
        self._db = db
        self.gates = []

    def new_round(self, n_calls):
        self.gates = []
        self.n_calls = n_calls

    async def _gated(self, method, sql, args, query_name):
        import asyncio
        if len(self.gates) < self.n_calls:        # the demand query of each call; follow-up queries of a caller are not held back
            f = asyncio.get_event_loop().create_future()
            self.gates.append(f)
            await f
        async for row in getattr(self._db, method)(sql, args, query_name):
            yield row

    def execute_and_fetchall(self, sql, args=None, query_name=None):
        return self._gated('execute_and_fetchall', sql, args, query_name)

    def select_and_fetchall(self, sql, args=None, query_name=None):
        return self._gated('select_and_fetchall', sql, args, query_name)

    def __getattr__(self, name):
        return getattr(self._db, name)


# ---- exact rational water-filling (the property's reference; written independently of the scheduler's loop) -------------

def _clamp(x, lo, hi):
    return max(lo, min(hi, x))


def given(level, users):
    """cores handed out at water level `level`: user (r, d) receives clamp(level - r, 0, d)"""
    return sum(_clamp(level - r, 0, d) for r, d in users)


def exact_waterfill(users, free):
    """(allocation per user as Fractions, level or None if everybody is fully served / nothing is handed out)"""
    if free <= 0 or not users:
        return [Fraction(0)] * len(users), None
    if sum(d for _, d in users) <= free:
        return [Fraction(d) for _, d in users], None
    bps = sorted({r for r, _ in users} | {r + d for r, d in users})
    # `given` is continuous, piecewise linear, non-decreasing in the level; find the segment that contains `free`
    for lo, hi in zip(bps, bps[1:]):
        g_lo, g_hi = given(lo, users), given(hi, users)
        if g_lo <= free <= g_hi and g_hi > g_lo:
            level = lo + Fraction(free - g_lo) * (hi - lo) / (g_hi - g_lo)
            return [_clamp(level - r, Fraction(0), Fraction(d)) for r, d in users], level
    raise AssertionError('water level not found')


class C11(Prop):
    id = 'C11'
    title = 'Fair-share allocation is max-min fair'
    lean_props = ['HailVerif.Props.C11']
    driver = 'Driver/C11.lean'
    engine = 'E3-pure'
    design_ref = 'DESIGN.md §4 C11'
    technique = ('Lean 4 proof of a loop invariant of the water-filling loop (integer model, fuel + termination measure) + differential '
                 'correspondence with the real PoolScheduler._compute_fair_share; oracle = exact rational water-filling (fractions)')
    level_text = ('Theorems for all user lists (running, ready : Nat) and all free : Int, including free <= 0: the model never runs out of fuel; '
                  'every user appears once; 0 <= alloc <= ready; every allocation is clamp(L - running, 0, ready) for one common integer level L '
                  '(users left short sit at L or have running >= L and get 0); 2*sum(alloc) <= 2*max(free,0) + n; if demand >= free > 0 then '
                  '2*sum(alloc) + n > 2*free; if demand <= free everybody gets its whole demand; free <= 0 allocates nothing. The model is tied to the '
                  'real method by differential runs (ties, zero-ready users, half-integer rounding boundaries, values to 2^40) on every run.')
    level_note = ('Trusted: Lean kernel; the hand-written model FairShare.fairShare agrees with the Python loop only as far as the correspondence '
                  'cases show; Python float `int(free / n + 0.5)` is modelled by exact integer division (agrees for free < 2^52 / n: argued, '
                  'tested at half-integer boundaries, not proved); the demand query is executed by harness/minisql (a MySQL-subset interpreter), not by MySQL; '
                  'the Lean model starts from the per-user sums.')
    budget = {'quick': 15000, 'thorough': 300000}
    search_budget = {'quick': 20000, 'thorough': 300000}
    rule = ('case = (free cores, [(running, ready)] for 0..12 users (0.3 % of the cases: 99..257 users, around the 100-row pages of the gear row iterator), the users\' counters sharded over 1..16 tokens of user_inst_coll_resources '
            'with negative shards that sum to the totals, rows of other instance collections, users whose shards cancel to zero; the free cores are held by 1..6 real Instance workers of a real Pool, some oversubscribed '
            '(negative free cores), some unhealthy (not counted); a quarter of the cases make 2-3 compute_fair_share calls on the one scheduler that overlap at the '
            'query and are resumed in a random order, each with its own workers; some cases make 2-3 calls one after the other with the rows of '
            'user_inst_coll_resources changed in between and the (patched) clock advanced by 0 ms .. 5 s; a third of the cases use the other callers: an explicit total '
            '(0, negative, any) passed to _compute_fair_share, or the real autoscaler entry Pool.regions_to_ready_cores_mcpu_from_estimated_job_queue '
            'computing its total from worker_cores / max_new_instances_per_autoscaler_loop / loop period, while the workers have room); values from small/tie-heavy pools, multiples of 250 mcpu and up to 2^40; '
            'free drawn from {<=0, 1..n, a random point of a random segment between breakpoints, half-integer rounding boundaries of the final '
            'division, total demand +-1, more than demand}; non-trivial = free > 0, >= 2 users and demand > free (the loop must stop part-way); '
            'distinct by full case')
    trusted = ['time.time / monotonic / *_ns / perf_counter and every imported time_msecs are the harness clock',
               'a scheduling point before each query (harness gate standing for the network round trip) orders overlapping calls',
               'harness/minisql executes the SQL text of the demand query (GROUP BY / HAVING / SUM / CAST / COALESCE) on generated rows of '
               'user_inst_coll_resources; real gear.database.Database over harness/minisql/fakepool',
               'IEEE-754: int(free / n + 0.5) equals trunc((2*free + n) / (2n)) for the magnitudes used (<= 2^44)']
    assumptions = ['per user the token shards of user_inst_coll_resources sum to non-negative counters (C01), a user without jobs has no cores; '
                   'individual shards may be negative',
                   'the pool\'s free cores are the sum of free_cores_mcpu over its healthy workers (active, <= 1 failed request), negative '
                   'workers included; integers, |values| <= 2^44 so float division is exact enough']

    how = 'unset'

    # ---- real code ------------------------------------------------------------------------------
    def setup(self, repo):
        import asyncio
        import random as _random
        loader.install(repo)
        for k, v in _ENV.items():
            os.environ.setdefault(k, v)
        # the real gear.database.Database over the MySQL-subset interpreter: the QUERY of _compute_fair_share is executed
        from .. import minisql
        from ..minisql import fakepool
        self.mdb = minisql.from_repo(repo, _random.Random(0), lambda: 1.7e9)
        from .. import aloop
        self.sched = aloop.Sched()
        self.loop = self.sched.loop
        self.real_db = self.loop.run_until_complete(fakepool.make_database(self.mdb))
        self.db = _GatedDb(self.real_db)
        # the real object graph the scheduler reads its free cores from: Pool (real __init__, which builds its real PoolScheduler),
        # real Instance objects added with the real Pool.add_instance (which decides who is healthy)
        from batch.driver.instance import Instance
        from batch.driver.instance_collection.pool import Pool
        from batch.inst_coll_config import PoolConfig
        from gear import CommonAiohttpAppKeys
        from hailtop.utils import Notice
        self.Instance, self.Pool, self.Notice, self.client_key = Instance, Pool, Notice, CommonAiohttpAppKeys.CLIENT_SESSION
        self.pool_config = PoolConfig(
            name='standard', cloud='gcp', worker_type='standard', worker_cores=16, worker_local_ssd_data_disk=True,
            worker_external_ssd_data_disk_size_gb=0, standing_worker_cores=16, boot_disk_size_gb=10, min_instances=0, max_instances=10,
            max_live_instances=10, preemptible=True, max_new_instances_per_autoscaler_loop=1, autoscaler_loop_period_secs=15,
            worker_max_idle_time_secs=30, standing_worker_max_idle_time_secs=30, job_queue_scheduling_window_secs=150, label='')
        # every clock the code might read is the harness clock (self.now_ms); time.* are patched around each case
        import sys as _sys
        self.now_ms = 1_700_000_000_000
        for name, mod in list(_sys.modules.items()):
            if mod is not None and name.split('.')[0] in ('batch', 'hailtop', 'gear') and callable(getattr(mod, 'time_msecs', None)):
                mod.time_msecs = lambda: self.now_ms
        self.how = ('PoolScheduler.compute_fair_share of a real Pool (real Instance workers added through Pool.add_instance); '
                    'real gear Database over minisql executes the demand query')

    class _NoTasks:
        """BackgroundTaskManager stand-in: the monitoring / scheduling loops of Pool.__init__ are not started"""
        def ensure_future(self, coro):
            coro.close()

    class _NoManager:
        regions = ['us-central1']

        def register_instance_collection(self, inst_coll):
            pass

    class _Region:
        def region_for(self, location):
            return 'us-central1'

    def _pool(self):
        app = {'db': self.db, 'scheduler_state_changed': self.Notice(), self.client_key: None}
        pool = self.Pool(app, self.db, self._NoManager(), None, 'batch-worker-verif-', self.pool_config, None, self._NoTasks())
        return app, pool

    def _set_workers(self, app, pool, workers, gen):
        """the pool's workers change: the old ones leave through the real adjust_for_remove_instance, the new ones join through add_instance"""
        for inst in list(pool.name_instance.values()):
            pool.adjust_for_remove_instance(inst)
            del pool.name_instance[inst.name]
        for k, (free, cores, state, failed) in enumerate(workers):
            inst = self.Instance(app, pool, f'w{gen}-{k}', state, cores, free, 0, failed, k, '10.0.0.1', 0, 'us-central1-a', 'n1-standard-16',
                                 True, self._Region())
            pool.add_instance(inst)

    @staticmethod
    def _calls(c):
        """the calls of compute_fair_share made on the one scheduler: [{'free': .., 'workers': ..}], and the order in which their
        queries come back; a plain case is one call"""
        if c.get('calls'):
            calls = [dict(x) for x in c['calls']]
            order = list(c.get('order') or range(len(calls)))
        else:
            calls = [{'free': c['free'], 'workers': c.get('workers')}]
            order = [0]
        return calls, order

    @staticmethod
    def _workers(call):
        """[free_cores_mcpu, cores_mcpu, state, failed_request_count]; a call without workers has one healthy worker holding `free`"""
        if call.get('workers') is not None:
            return [list(w) for w in call['workers']]
        if call.get('kind', 'loop') != 'loop':
            return []
        return [[call['free'], max(call['free'], 16000), 'active', 0]]

    def _free(self, call):
        """the free total the caller intends.  Scheduling loop / driver page: the pool's free cores = sum over the healthy (active, at
        most one failed request) workers, negative workers included.  A caller with its own total: that total, whatever the workers
        hold.  The autoscaler: worker_cores * int(2.5 * max_new_instances_per_autoscaler_loop * runs per minute)."""
        kind = call.get('kind', 'loop')
        if kind == 'explicit':
            return call['free']
        if kind == 'autoscaler':
            return call['worker_cores'] * int(2.5 * call['max_new'] * (60 / call['period']))
        return sum(w[0] for w in self._workers(call) if w[2] == 'active' and w[3] <= 1)

    def extra_coverage(self):
        return {'implementation_reached_by': self.how}

    COLS = ('n_ready_jobs', 'ready_cores_mcpu', 'n_running_jobs', 'running_cores_mcpu')

    @staticmethod
    def _shards(c, call=None):
        """rows of user_inst_coll_resources for the pool: [user index, token, n_ready_jobs, ready_cores, n_running_jobs, running_cores];
        a case without explicit shards keeps every user's counters on token 0; in a sequence of calls a call may come with the rows
        as they are at its time"""
        if call is not None and call.get('rows') is not None:
            return [list(r) for r in call['rows']]
        if c.get('rows') is not None:
            return [list(r) for r in c['rows']]
        return [[i, 0, _njobs(d), d, _njobs(r), r] for i, (r, d) in enumerate(c['users'])]

    def _totals(self, c, call=None):
        """per-user SUMS over the token shards: (running cores, ready cores, n jobs) -- what the property speaks about"""
        n = len(c['users'])
        tot = [[0, 0, 0] for _ in range(n)]
        for ui, _tok, nr, rc, nrun, runc in self._shards(c, call):
            if ui < n:
                tot[ui][0] += runc
                tot[ui][1] += rc
                tot[ui][2] += nr + nrun
        return tot

    def _users(self, c, call=None):
        return [(r, d) for r, d, _n in self._totals(c, call)]

    def _load(self, c, call=None):
        rows = []
        for ui, tok, nr, rc, nrun, runc in self._shards(c, call):
            rows.append({'user': f'u{ui}', 'inst_coll': 'standard', 'token': tok, 'n_ready_jobs': nr, 'ready_cores_mcpu': rc,
                         'n_running_jobs': nrun, 'running_cores_mcpu': runc})
        for ui, tok, coll, nr, rc, nrun, runc in c.get('other') or []:       # other instance collections: must not be counted
            rows.append({'user': f'u{ui}', 'inst_coll': coll, 'token': tok, 'n_ready_jobs': nr, 'ready_cores_mcpu': rc,
                         'n_running_jobs': nrun, 'running_cores_mcpu': runc})
        self.mdb.execute('DELETE FROM user_inst_coll_resources')
        self.mdb.load_rows('user_inst_coll_resources', rows)

    def _real(self, c):
        import contextvars
        import time as _time
        self._load(c)
        self.now_ms = 1_700_000_000_000
        saved = {k: getattr(_time, k) for k in ('time', 'monotonic', 'time_ns', 'monotonic_ns', 'perf_counter')}
        _time.time = _time.monotonic = _time.perf_counter = lambda: self.now_ms / 1000
        _time.time_ns = _time.monotonic_ns = lambda: self.now_ms * 1_000_000
        try:
            return self._real_calls(c, contextvars)
        finally:
            for k, v in saved.items():
                setattr(_time, k, v)

    def _real_calls(self, c, contextvars):
        calls, order = self._calls(c)
        sequential = bool(c.get('sequential'))
        app, pool = self._pool()
        self.db.new_round(len(calls))
        # the autoscaler caller does not return the allocation: observe what the real _compute_fair_share hands back to it
        which = contextvars.ContextVar('c11_call', default=None)
        seen = {}
        inner = pool.scheduler._compute_fair_share

        async def spy(*a, **k):
            res = await inner(*a, **k)
            seen[which.get()] = res
            return res
        pool.scheduler._compute_fair_share = spy

        async def run(i, make):
            which.set(i)
            return await make()
        tasks = []
        for i, call in enumerate(calls):
            if sequential:
                # one call after the other on the one scheduler: the table is as it is at the call's time, the clock has moved on
                self._load(c, call)
                self.now_ms += call.get('dt_ms', 0)
                self.db.new_round(1)
            # the call reads the workers' free cores (or takes its caller's total), then blocks in its demand query (gate i)
            self._set_workers(app, pool, self._workers(call), i)
            kind = call.get('kind', 'loop')
            if kind == 'loop':            # PoolScheduler.schedule_loop_body, driver/main.py: `compute_fair_share()`
                make = pool.scheduler.compute_fair_share
            elif kind == 'explicit':      # a caller passing its own total: `_compute_fair_share(total)`
                make = (lambda f=call['free']: pool.scheduler._compute_fair_share(f))
            else:                         # the autoscaler: Pool.regions_to_ready_cores_mcpu_from_estimated_job_queue computes the total
                assert kind == 'autoscaler', kind
                pool.worker_cores = call['worker_cores']
                pool.max_new_instances_per_autoscaler_loop = call['max_new']
                pool.autoscaler_loop_period_secs = call['period']
                make = pool.regions_to_ready_cores_mcpu_from_estimated_job_queue
            tasks.append(self.loop.create_task(run(i, make)))
            self.loop.settle()
            if sequential:
                for g in self.db.gates:
                    if not g.done():
                        g.set_result(None)
                self.loop.settle()
        for i in ([] if sequential else order):
            if i < len(self.db.gates) and not self.db.gates[i].done():
                self.db.gates[i].set_result(None)
            self.loop.settle()
        results = []
        for i, t in enumerate(tasks):
            if calls[i].get('kind') == 'autoscaler':
                if not t.done():
                    t.cancel()
                    self.loop.settle()
                if i in seen:
                    results.append(seen[i])
                else:
                    exc = t.exception() if t.done() and not t.cancelled() else None
                    results.append(exc if exc is not None else RuntimeError('the autoscaler caller did not go through _compute_fair_share'))
                continue
            if not t.done():
                t.cancel()
                self.loop.settle()
                results.append(RuntimeError('call did not finish'))
            elif t.cancelled():
                results.append(RuntimeError('call was cancelled'))
            elif t.exception() is not None:
                results.append(t.exception())
            else:
                results.append(t.result())
        return results

    def impl(self, c):
        n = len(c['users'])
        lines = []
        for res in self._real(c):
            if isinstance(res, BaseException):
                lines.append(f'exc {type(res).__name__}')
                continue
            if not n:
                lines.append('none')
                continue
            out = []
            for i in range(n):
                rec = res.get(f'u{i}')
                out.append('0' if rec is None else repr(rec['allocated_cores_mcpu']))   # not listed = nothing allocated
            extra = sorted(u for u in res if not (u[1:].isdigit() and int(u[1:]) < n) and res[u]['allocated_cores_mcpu'] != 0)
            if extra:
                out.append('allocated-to-users-without-jobs:' + ','.join(extra))
            lines.append(' '.join(out))
        return lines

    def model_lines(self, c):
        return [' '.join(map(str, [self._free(call)] + [x for rd in self._users(c, call) for x in rd])) for call in self._calls(c)[0]]

    # ---- the property, on the real output ------------------------------------------------------------
    def oracle(self, c, out):
        if out[0].startswith('IMPL-EXC'):
            return out[0]
        calls, order = self._calls(c)
        if len(out) != len(calls):
            return f'{len(out)} results for {len(calls)} calls'
        for k, (call, line) in enumerate(zip(calls, out)):
            # every call must return what it would return alone: the allocation is a function of the demands and the free cores
            m = self._oracle_one(c, self._free(call), line, call)
            if m:
                kind = call.get('kind', 'loop')
                if kind != 'loop':
                    m = (f'caller passes its own total {self._free(call)} ({kind}), workers hold '
                         f'{[w[0] for w in self._workers(call)]}: ') + m
                if len(calls) > 1 and c.get('sequential'):
                    m = (f'call {k} of {len(calls)} calls made one after the other ({call.get("dt_ms", 0)} ms after the previous one, '
                         f'demand at call time {self._users(c, call)}): ') + m
                elif len(calls) > 1:
                    m = f'call {k} of {len(calls)} overlapping calls (queries answered in order {order}): ' + m
                return m
        return None

    def _oracle_one(self, c, free, line, call=None):
        out = [line]
        if line.startswith('exc '):
            return f'the call raised {line[4:]}'
        users = self._users(c, call)
        if any(r < 0 or d < 0 for r, d in users):
            return None   # inconsistent counters: outside the property's domain
        if not users:
            return None if out[0] == 'none' else out[0]
        toks = out[0].split(' ')
        if len(toks) != len(users):
            return f'{len(toks)} allocations for {len(users)} users'
        alloc = []
        for i, t in enumerate(toks):
            try:
                alloc.append(int(t))
            except ValueError:
                return f'user {i}: allocation {t!r} is not an integer'
        n = len(users)
        demand = sum(d for _, d in users)
        for i, ((r, d), a) in enumerate(zip(users, alloc)):
            if a < 0:
                return f'user {i} (running {r}, ready {d}) is allocated {a} < 0'
            if a > d:
                return f'user {i} (running {r}, ready {d}) is allocated {a} > its ready demand'
        total = sum(alloc)
        if free <= 0 and total != 0:
            return f'free = {free} <= 0 but {total} cores are allocated'
        if 2 * total > 2 * max(free, 0) + n:
            return f'total allocation {total} exceeds free {free} by more than rounding (n/2 = {n}/2)'
        if free > 0 and 2 * total < 2 * min(free, demand) - n:
            return f'only {total} of min(free {free}, demand {demand}) cores handed out (short by more than rounding n/2 = {n}/2)'
        if free > 0 and demand <= free and total != demand:
            return f'demand {demand} <= free {free} but only {total} allocated'
        # common water level: every short user with a positive allocation sits at one level L; short users with 0 have running >= L;
        # fully served users have running + ready <= L
        part = sorted({r + a for (r, d), a in zip(users, alloc) if 0 < a < d})
        if len(part) > 1:
            return f'users left short sit at different levels {part[:4]}'
        lo = max([r + d for (r, d), a in zip(users, alloc) if a == d and d > 0] + part, default=None)
        hi = min([r for (r, d), a in zip(users, alloc) if a == 0 and d > 0] + part, default=None)
        if lo is not None and hi is not None and lo > hi:
            return (f'no common water level: a served user reaches {lo} while a user left short is at {hi} '
                    f'(alloc {alloc}, users {users})')
        # distance to the exact rational max-min fair allocation
        exact, _level = exact_waterfill(users, free)
        for i, (a, e) in enumerate(zip(alloc, exact)):
            if abs(a - e) > Fraction(1, 2):
                return f'user {i}: allocated {a}, exact max-min fair share {e} (difference {float(abs(a - e)):.3f} > 1/2)'
        return None

    # ---- generation ----------------------------------------------------------------------------------
    @staticmethod
    def _value(rng, scale):
        if scale == 'tiny':
            return rng.choice([0, 0, 1, 1, 2, 3, 4, 5])
        if scale == 'mcpu':
            return 250 * rng.choice([0, 1, 1, 2, 4, 4, 8, 16, 3, 5, 64, 100])
        if scale == 'mid':
            return rng.randint(0, 5000)
        k = rng.choice([10, 20, 30, 40])
        return rng.choice([0, rng.randint(0, 2 ** k), 2 ** k, 2 ** k - 1, 2 ** k + 1])

    def _gen_free(self, rng, users):
        n = len(users)
        demand = sum(d for _, d in users)
        m = rng.random()
        if m < 0.08 or not users:
            return rng.choice([0, -1, -rng.randint(1, 2 ** 40), -250]), 'free<=0'
        if m < 0.16:
            return rng.randint(1, max(1, n)), 'tiny'
        if m < 0.28:
            return demand + rng.choice([-1, 0, 0, 1, rng.randint(1, 10 ** 6)]), 'around-demand'
        bps = sorted({r for r, _ in users} | {r + d for r, d in users})
        if len(bps) < 2:
            return rng.randint(1, 10), 'tiny'
        k = rng.randrange(len(bps) - 1)
        lo, hi = bps[k], bps[k + 1]
        g_lo, g_hi = given(lo, users), given(hi, users)
        s = (g_hi - g_lo) // (hi - lo)           # number of users allocating on this segment
        if m < 0.36:
            return g_lo + rng.choice([0, 1, -1]), 'at-breakpoint'
        if s > 0 and m < 0.62:
            j = rng.randrange(0, hi - lo)
            f = s * j + s // 2 + rng.choice([-1, 0, 0, 1])      # free / s = j + 1/2 (+- 1/s): the rounding boundary
            return g_lo + max(f, 0), 'half-boundary'
        return rng.randint(g_lo, max(g_lo, g_hi)), 'between-breakpoints'

    def cases(self, rng, n, tier):
        for _ in range(n):
            nu = rng.choice([0, 1, 1, 2, 2, 3, 3, 4, 5, 6, 7, 8, 9, 10, 11, 12])
            if rng.random() < 0.003:
                # more users than one page of the row iterator the demand query is read through (gear Transaction.execute_and_fetchall
                # fetches 100 rows at a time): page boundaries and trailing partial pages (seed C11-13)
                nu = rng.choice([99, 100, 101, 130, 199, 200, 201, 257])
            scale = rng.choice(['tiny', 'tiny', 'mcpu', 'mcpu', 'mid', 'big'])
            users = []
            for _i in range(nu):
                sc = scale if rng.random() < 0.85 else rng.choice(['tiny', 'mcpu', 'mid', 'big'])
                r = self._value(rng, sc)
                d = 0 if rng.random() < 0.12 else self._value(rng, sc)
                if users and rng.random() < 0.25:     # ties in running / total / both
                    r0, d0 = rng.choice(users)
                    t = rng.random()
                    if t < 0.4:
                        r = r0
                    elif t < 0.7 and r0 + d0 >= r:
                        d = r0 + d0 - r
                    elif t < 0.85:
                        r, d = r0, d0
                    else:
                        r = r0 + d0        # starts where another one is full
                users.append([r, d])
            free, _mode = self._gen_free(rng, [tuple(u) for u in users])
            c = {'free': free, 'users': users}
            if rng.random() < 0.8:
                c['rows'], c['other'] = self._shard(rng, users)
            if rng.random() < 0.75:
                c['workers'] = self._gen_workers(rng, free)
            if rng.random() < 0.25 and users:
                # the scheduling loop and the autoscaler call the same scheduler: 2-3 calls overlapping at the query's await point,
                # each with the pool's workers of its moment, the queries answered in a random order
                calls = [{'free': free, 'workers': c.get('workers')}]
                for _ in range(rng.choice([1, 1, 2])):
                    f2 = free if rng.random() < 0.25 else self._gen_free(rng, [tuple(u) for u in users])[0]
                    calls.append({'free': f2, 'workers': self._gen_workers(rng, f2) if rng.random() < 0.5 else None})
                order = list(range(len(calls)))
                rng.shuffle(order)
                c['calls'], c['order'] = calls, order
            elif rng.random() < 0.2 and users:
                # calls one after the other on the one scheduler (it runs about once a second) while the demand changes in between:
                # jobs get scheduled, finish, are submitted; the clock moves by 0 ms .. 5 s
                calls = [{'free': free, 'workers': c.get('workers'), 'rows': c.get('rows') or self._shards(c), 'dt_ms': 0}]
                cur_users = [list(u) for u in users]
                for _ in range(rng.choice([1, 1, 2])):
                    for u in cur_users:
                        t = rng.random()
                        if t < 0.35 and u[1] > 0:          # some ready jobs start running
                            k = rng.randint(1, u[1])
                            u[0] += k
                            u[1] -= k
                        elif t < 0.55 and u[0] > 0:        # running jobs finish
                            u[0] -= rng.randint(1, u[0])
                        elif t < 0.8:                      # new jobs are submitted
                            u[1] += rng.choice([250, 1000, 1000, 4000, rng.randint(1, 10 ** 5)])
                    f2 = free if rng.random() < 0.4 else self._gen_free(rng, [tuple(u) for u in cur_users])[0]
                    rows2 = self._shard(rng, cur_users)[0] if rng.random() < 0.7 else \
                        [[i, 0, _njobs(d), d, _njobs(r), r] for i, (r, d) in enumerate(cur_users)]
                    calls.append({'free': f2, 'workers': self._gen_workers(rng, f2) if rng.random() < 0.5 else None, 'rows': rows2,
                                  'dt_ms': rng.choice([0, 0, 1, 200, 500, 999, 1000, 1001, 2000, 5000])})
                c['calls'], c['order'], c['sequential'] = calls, list(range(len(calls))), True
            if rng.random() < 0.3 and not c.get('sequential'):
                # the other callers: the autoscaler computes its own total (0 when it may not create instances) and passes it
                # explicitly -- while the pool's workers have room of their own
                calls = c.get('calls') or [{'free': free, 'workers': c.get('workers')}]
                for call in calls:
                    if rng.random() < (0.6 if len(calls) > 1 else 1.0):
                        room = [[rng.choice([250, 3500, 16000, rng.randint(1, 10 ** 6)]), 16000, 'active', 0] for _ in range(rng.randint(0, 3))]
                        if rng.random() < 0.35:
                            call.clear()
                            call.update({'kind': 'autoscaler', 'worker_cores': rng.choice([1, 2, 4, 8, 16, 64, 96]),
                                         'max_new': rng.choice([0, 0, 1, 2, 5, 10]), 'period': rng.choice([15, 15, 30, 60, 7]), 'workers': room})
                        else:
                            f = rng.choice([0, 0, 0, -1, -rng.randint(1, 10 ** 6), call['free'], call['free'], rng.randint(1, 20000)])
                            call.clear()
                            call.update({'kind': 'explicit', 'free': f, 'workers': room})
                c['calls'] = calls
                c.setdefault('order', list(range(len(calls))))
            yield c

    @staticmethod
    def _gen_workers(rng, free):
        """workers whose free cores add up to `free`: some oversubscribed (negative free cores) next to others with room;
        sometimes unhealthy workers (not active, or more than one failed request) that must not be counted"""
        k = rng.choice([1, 2, 2, 3, 4, 6])
        m = max(abs(free), 16000)
        parts = []
        for _ in range(k - 1):
            t = rng.random()
            parts.append(-rng.choice([250, 1000, 2000, rng.randint(1, m)]) if t < 0.4 else rng.randint(0, m) if t < 0.8 else 0)
        parts.append(free - sum(parts))
        rng.shuffle(parts)
        ws = [[f, max(16000, f), 'active', rng.choice([0, 0, 0, 1])] for f in parts]
        if rng.random() < 0.2:
            for _ in range(rng.randint(1, 2)):
                state, failed = rng.choice([('pending', 0), ('inactive', 0), ('active', 2), ('active', 5), ('deleted', 0)])
                ws.insert(rng.randrange(len(ws) + 1), [rng.choice([16000, 8000, 250, -1000]), 16000, state, failed])
        return ws

    @staticmethod
    def _split(rng, total, k, spread):
        """k integers (some negative) that sum to total"""
        parts = [rng.randint(-spread, spread + total) if rng.random() < 0.7 else 0 for _ in range(k - 1)]
        return parts + [total - sum(parts)]

    def _shard(self, rng, users):
        """what the triggers leave behind: every user's counters spread over several tokens, individual shards may be negative
        (a job counted Ready under one token and scheduled under another leaves (-1 ready, +1 running) there); the SUMS are the users' totals"""
        n_tokens = rng.choice([1, 2, 4, 8, 8, 16])
        rows = []
        for i, (r, d) in enumerate(users):
            k = rng.choice([1, 2, 2, 3, 4]) if n_tokens > 1 else 1
            toks = rng.sample(range(n_tokens), min(k, n_tokens))
            k = len(toks)
            nr, nrun = _njobs(d), _njobs(r)
            if k > 1 and rng.random() < 0.5 and nr + nrun > 0:
                # trigger-like: everything submitted on one token, jobs scheduled / finished on the others
                parts = [[nr + nrun, d + r, 0, 0]] + [[0, 0, 0, 0] for _ in range(k - 1)]
                left_n, left_c = nrun, r
                for j in range(1, k):
                    mn = left_n if j == k - 1 else rng.randint(0, left_n)
                    mc = left_c if j == k - 1 else (rng.randint(0, left_c) if mn else 0)
                    if mn == 0 and j == k - 1:
                        mc = left_c
                    parts[j] = [-mn, -mc, mn, mc]
                    left_n -= mn
                    left_c -= mc
                cols = list(zip(*parts))
            else:
                cols = [self._split(rng, nr, k, 3), self._split(rng, d, k, max(1, d // 2)),
                        self._split(rng, nrun, k, 3), self._split(rng, r, k, max(1, r // 2))]
            for j, tok in enumerate(toks):
                rows.append([i, tok, cols[0][j], cols[1][j], cols[2][j], cols[3][j]])
        other = []
        if rng.random() < 0.3:
            for _ in range(rng.randint(1, 4)):
                ui = rng.randrange(0, len(users) + 2)
                row = [ui, rng.randrange(n_tokens), rng.choice(['highmem', 'job-private']), rng.randint(0, 5),
                       rng.randint(0, 10 ** 6), rng.randint(0, 5), rng.randint(0, 10 ** 6)]
                if not any(o[:3] == row[:3] for o in other):
                    other.append(row)
        # a user whose jobs have all gone: shards cancel out to zero
        if rng.random() < 0.15 and n_tokens > 1:
            g = len(users)
            a, b = rng.sample(range(n_tokens), 2)
            m = rng.randint(1, 4)
            other_rows = [[g, a, m, 1000 * m, 0, 0], [g, b, -m, -1000 * m, 0, 0]]
            rows += other_rows
        return rows, other

    def search_cases(self, rng, n, hint):
        # exhaustive small scope first (1..3 users, values 0..3, free -1..8), then more of the same
        small = []
        vals = [0, 1, 2, 3]
        import itertools
        for nu in (1, 2, 3):
            for combo in itertools.product(vals, repeat=2 * nu):
                users = [[combo[2 * i], combo[2 * i + 1]] for i in range(nu)]
                for free in range(-1, 9):
                    small.append({'free': free, 'users': users})
        rng.shuffle(small)
        return small[:n // 2] + list(self.cases(rng, n - min(len(small), n // 2), 'thorough'))

    def classify(self, c, out):
        users = self._users(c)
        calls, order = self._calls(c)
        free = self._free(calls[0])
        n = len(users)
        demand = sum(d for _, d in users)
        tags = [f'users={n if n <= 4 else "5-8" if n <= 8 else "9-12"}']
        if free <= 0:
            tags.append('free<=0')
        elif demand <= free:
            tags.append('free>=demand')
        else:
            try:
                total = sum(int(t) for t in out[0].split(' '))
                tags.append('stopped-part-way:exact' if total == free else 'stopped-part-way:rounded-up' if total > free
                            else 'stopped-part-way:rounded-down')
            except ValueError:
                tags.append('bad-output')
        rs = [r for r, _ in users]
        ts = [r + d for r, d in users]
        if len(set(rs)) < len(rs) or len(set(ts)) < len(ts):
            tags.append('ties')
        if any(d == 0 for _, d in users):
            tags.append('zero-ready-user')
        if any(max(r, d) >= 2 ** 30 for r, d in users) or abs(free) >= 2 ** 30:
            tags.append('values>=2^30')
        sh = self._shards(c)
        per_user = {}
        for r in sh:
            per_user[r[0]] = per_user.get(r[0], 0) + 1
        tags.append('shards/user=1' if all(v == 1 for v in per_user.values()) else 'shards/user>1')
        if any(r[2] + r[4] <= 0 and (r[2] or r[3] or r[4] or r[5]) for r in sh):
            tags.append('shard-with-n_ready+n_running<=0')
        if any(r[3] < 0 or r[5] < 0 for r in sh):
            tags.append('negative-cores-shard')
        if c.get('other'):
            tags.append('rows-of-other-inst-colls')
        ws = [w for call in calls for w in self._workers(call)]
        tags.append(f'calls={len(calls)}')
        if c.get('sequential') and len(calls) > 1:
            tags.append('sequential-calls')
            if any(self._users(c, a) != self._users(c, b) for a, b in zip(calls, calls[1:])):
                tags.append('demand-changed-between-calls')
            for call in calls[1:]:
                dt = call.get('dt_ms', 0)
                tags.append('gap=' + ('0ms' if dt == 0 else '<1s' if dt < 1000 else '>=1s'))
        for call in calls:
            k = call.get('kind', 'loop')
            tags.append('caller=' + {'loop': 'compute_fair_share()', 'explicit': '_compute_fair_share(total)',
                                     'autoscaler': 'Pool.regions_to_ready_cores_mcpu_from_estimated_job_queue'}[k])
            if k != 'loop' and self._free(call) <= 0 and any(w[0] > 0 for w in self._workers(call)):
                tags.append('explicit-total<=0-while-workers-have-room')
        if len(calls) > 1:
            if not c.get('sequential'):
                tags.append('overlapping:answered-in-call-order' if order == sorted(order) else 'overlapping:answered-out-of-order')
        tags.append('workers=1' if len(ws) == 1 else 'workers>1')
        if any(w[0] < 0 and w[2] == 'active' and w[3] <= 1 for w in ws):
            tags.append('oversubscribed-worker(free<0)')
        if any(not (w[2] == 'active' and w[3] <= 1) for w in ws):
            tags.append('unhealthy-worker-present')
        nontrivial = n >= 2 and any(0 < self._free(call) < demand for call in calls)
        return (json.dumps(c, sort_keys=True) if nontrivial else None, tags)

    def finding_key(self, c, msg):
        calls, order = self._calls(c)
        return json.dumps({'calls': calls, 'order': order, 'users': sorted(map(list, self._users(c))), 'rows': c.get('rows'),
                           'other': c.get('other')}, sort_keys=True)

    def shrink(self, c, fails):
        cur = {'free': self._free(self._calls(c)[0][0]), 'users': [list(u) for u in self._users(c)]}
        if c.get('calls') or not fails(cur):
            # the failure depends on how the counters are sharded: shrink users / rows, keep the shards
            return self._shrink_sharded(c, fails)
        cur['users'] = generic_shrink_list(cur['users'], lambda us: fails({'free': cur['free'], 'users': us}))
        # shrink numbers: halve / decrement while it still fails
        changed = True
        rounds = 0
        while changed and rounds < 200:
            changed = False
            rounds += 1
            cands = [{'free': cur['free'] // 2, 'users': [[r // 2, d // 2] for r, d in cur['users']]},
                     {'free': cur['free'] // 2, 'users': [[r, d // 2] for r, d in cur['users']]},
                     {'free': cur['free'], 'users': [[r // 2, d] for r, d in cur['users']]},
                     {'free': cur['free'], 'users': [[r, min(d, cur['free'] + 1)] for r, d in cur['users']]}]
            cands = [x for x in cands if x != cur]
            for f in {cur['free'] // 2, cur['free'] - 1, cur['free'] - len(cur['users'])}:
                if 0 <= f < cur['free']:
                    cands.append({'free': f, 'users': cur['users']})
            for i, (r, d) in enumerate(cur['users']):
                for r2, d2 in {(r // 2, d), (r, d // 2), (r - 1, d), (r, d - 1), (0, d)}:
                    if 0 <= r2 and 0 <= d2 and (r2, d2) != (r, d) and r2 <= r and d2 <= d:
                        us = [list(u) for u in cur['users']]
                        us[i] = [r2, d2]
                        cands.append({'free': cur['free'], 'users': us})
            for cand in cands:
                if fails(cand):
                    cur = cand
                    changed = True
                    break
        return cur


    def _shrink_sharded(self, c, fails):
        cur = json.loads(json.dumps(c))
        cur['users'] = [list(u) for u in self._users(cur)]

        def drop_user(case, i):
            d = json.loads(json.dumps(case))
            del d['users'][i]
            d['rows'] = [[r[0] - (r[0] > i)] + r[1:] for r in d['rows'] if r[0] != i]
            d['other'] = [[r[0] - (r[0] > i)] + r[1:] for r in (d.get('other') or []) if r[0] != i]
            for call in d.get('calls') or []:
                if call.get('rows') is not None:
                    call['rows'] = [[r[0] - (r[0] > i)] + r[1:] for r in call['rows'] if r[0] != i]
            return d
        if cur.get('rows') is None:
            cur['rows'] = self._shards(cur)
        changed = True
        while changed:
            changed = False
            if cur.get('calls') and len(cur['calls']) > 1:
                calls, order = self._calls(cur)
                for i in range(len(calls)):
                    d = dict(cur, calls=calls[:i] + calls[i + 1:], order=[o - (o > i) for o in order if o != i])
                    if fails(d):
                        cur, changed = d, True
                        break
                if changed:
                    continue
                for i, call in enumerate(calls):       # one plain worker per call
                    if call.get('workers') is not None and call.get('kind', 'loop') == 'loop':
                        d = json.loads(json.dumps(cur))
                        d['calls'][i] = {k: v for k, v in call.items() if k in ('rows', 'dt_ms')} | {'free': self._free(call)}
                        if fails(d):
                            cur, changed = d, True
                            break
                if changed:
                    continue
            ws = cur.get('workers')
            if ws and len(ws) > 1 and not cur.get('calls'):
                for i in range(len(ws)):
                    d = dict(cur, workers=ws[:i] + ws[i + 1:])
                    if fails(d):
                        cur, changed = d, True
                        break
                if changed:
                    continue
            if cur.get('other'):
                d = dict(cur, other=[])
                if fails(d):
                    cur, changed = d, True
                    continue
            for i in range(len(cur['users'])):
                d = drop_user(cur, i)
                if fails(d):
                    cur, changed = d, True
                    break
            if changed:
                continue
            # merge two shards of one user
            rows = cur['rows']
            for a in range(len(rows)):
                for b in range(a + 1, len(rows)):
                    if rows[a][0] == rows[b][0]:
                        d = json.loads(json.dumps(cur))
                        m = [rows[a][0], rows[a][1]] + [x + y for x, y in zip(rows[a][2:], rows[b][2:])]
                        d['rows'] = [r for k, r in enumerate(rows) if k not in (a, b)] + [m]
                        if fails(d):
                            cur, changed = d, True
                            break
                if changed:
                    break
            if changed:
                continue
            for f in ((cur['free'] // 2, cur['free'] - 1) if cur.get('workers') is None else ()):
                if 0 < f < cur['free']:
                    d = dict(cur, free=f)
                    if fails(d):
                        cur, changed = d, True
                        break
        return cur


PROP = C11()

"""C11 Fair-share allocation is max-min fair — correspondence of FairShare.fairShare with the real
batch.driver.instance_collection.pool.PoolScheduler._compute_fair_share, oracle = exact rational water-filling."""
import ast
import json
import os
from fractions import Fraction

from .. import loader
from ..framework import Prop, generic_shrink_list

POOL_PY = 'batch/batch/driver/instance_collection/pool.py'

# environment read at import time by batch.batch_configuration / batch.cloud.utils / gear.profiling (values are never used here)
_ENV = dict(CLOUD='gcp', HAIL_QUERY_STORAGE_URI='gs://verif', HAIL_QUERY_ACCEPTABLE_JAR_SUBFOLDER='/jars',
            HAIL_DEFAULT_NAMESPACE='default', HAIL_SCOPE='test', HAIL_DOCKER_ROOT_IMAGE='x', HAIL_DOCKER_PREFIX='x',
            KUBERNETES_SERVER_URL='x', INTERNAL_GATEWAY_IP='127.0.0.1', HAIL_BATCH_STORAGE_URI='gs://verif', HAIL_SHA='x')


def _drive(coro):
    """run a coroutine that never really suspends (the fake db yields without awaiting)"""
    try:
        coro.send(None)
    except StopIteration as e:
        return e.value
    coro.close()
    raise RuntimeError('_compute_fair_share suspended on something other than the fake db')


class _FakeDB:
    def __init__(self):
        self.rows = []

    async def _gen(self):
        for r in self.rows:
            yield dict(r)

    def execute_and_fetchall(self, sql, args=None, query_name=None):
        return self._gen()

    select_and_fetchall = execute_and_fetchall


class _FakePool:
    name = 'standard'

    def __str__(self):
        return 'pool standard'


# ---- exact rational water-filling (the property's reference; written independently of the scheduler's loop) -------------

def _clamp(x, lo, hi):
    return max(lo, min(hi, x))


def given(level, users):
    """cores handed out at water level `level`: user (r, d) receives clamp(level - r, 0, d)"""
    return sum(_clamp(level - r, 0, d) for r, d in users)


def exact_waterfill(users, free):
    """(allocation per user as Fractions, level or None if everybody is fully served / nothing is handed out)"""
    if free <= 0 or not users:
        return [Fraction(0)] * len(users), None
    if sum(d for _, d in users) <= free:
        return [Fraction(d) for _, d in users], None
    bps = sorted({r for r, _ in users} | {r + d for r, d in users})
    # `given` is continuous, piecewise linear, non-decreasing in the level; find the segment that contains `free`
    for lo, hi in zip(bps, bps[1:]):
        g_lo, g_hi = given(lo, users), given(hi, users)
        if g_lo <= free <= g_hi and g_hi > g_lo:
            level = lo + Fraction(free - g_lo) * (hi - lo) / (g_hi - g_lo)
            return [_clamp(level - r, Fraction(0), Fraction(d)) for r, d in users], level
    raise AssertionError('water level not found')


class C11(Prop):
    id = 'C11'
    title = 'Fair-share allocation is max-min fair'
    lean_props = ['HailVerif.Props.C11']
    driver = 'Driver/C11.lean'
    engine = 'E3-pure'
    design_ref = 'DESIGN.md §4 C11'
    technique = ('Lean 4 proof of a loop invariant of the water-filling loop (integer model, fuel + termination measure) + differential '
                 'correspondence with the real PoolScheduler._compute_fair_share; oracle = exact rational water-filling (fractions)')
    level_text = ('Theorems for all user lists (running, ready : Nat) and all free : Int, including free <= 0: the model never runs out of fuel; '
                  'every user appears once; 0 <= alloc <= ready; every allocation is clamp(L - running, 0, ready) for one common integer level L '
                  '(users left short sit at L or have running >= L and get 0); 2*sum(alloc) <= 2*max(free,0) + n; if demand >= free > 0 then '
                  '2*sum(alloc) + n > 2*free; if demand <= free everybody gets its whole demand; free <= 0 allocates nothing. The model is tied to the '
                  'real method by differential runs (ties, zero-ready users, half-integer rounding boundaries, values to 2^40) on every run.')
    level_note = ('Trusted: Lean kernel; the hand-written model FairShare.fairShare agrees with the Python loop only as far as the correspondence '
                  'cases show; Python float `int(free / n + 0.5)` is modelled by exact integer division (agrees for free < 2^52 / n: argued, '
                  'tested at half-integer boundaries, not proved); the SQL query is replaced by generated rows.')
    budget = {'quick': 40000, 'thorough': 600000}
    search_budget = {'quick': 20000, 'thorough': 300000}
    rule = ('case = (free cores, [(running, ready)] for 0..12 users); values from small/tie-heavy pools, multiples of 250 mcpu and up to 2^40; '
            'free drawn from {<=0, 1..n, a random point of a random segment between breakpoints, half-integer rounding boundaries of the final '
            'division, total demand +-1, more than demand}; non-trivial = free > 0, >= 2 users and demand > free (the loop must stop part-way); '
            'distinct by full case')
    trusted = ['fake Database.execute_and_fetchall returning the generated rows (the SQL text is not executed)',
               'IEEE-754: int(free / n + 0.5) equals trunc((2*free + n) / (2n)) for the magnitudes used (<= 2^44)']
    assumptions = ['running_cores_mcpu and ready_cores_mcpu returned by the query are non-negative integers, one row per user',
                   'free_cores_mcpu is an integer (sum of per-instance integers), |values| <= 2^44 so float division is exact enough']

    how = 'unset'

    # ---- real code ------------------------------------------------------------------------------
    def setup(self, repo):
        loader.install(repo)
        for k, v in _ENV.items():
            os.environ.setdefault(k, v)
        self.db = _FakeDB()
        fn = None
        try:
            import batch.driver.instance_collection.pool as pool_mod
            cls = pool_mod.PoolScheduler
            self.obj = cls.__new__(cls)
            fn = cls._compute_fair_share
            self.how = 'bound method of the imported PoolScheduler (bare object, fake db)'
        except Exception as e:  # narrower import surface: the same source text, taken by AST (validated fallback)
            fn, self.obj = self._by_ast(repo)
            self.how = f'method source taken by AST from pool.py and exec-ed (import failed: {type(e).__name__})'
        self.obj.db = self.db
        self.obj.pool = _FakePool()
        self.fn = fn

    @staticmethod
    def _by_ast(repo):
        import sortedcontainers
        import typing
        src = loader.source_of(POOL_PY, repo)
        tree = ast.parse(src)
        for node in ast.walk(tree):
            if isinstance(node, ast.ClassDef) and node.name == 'PoolScheduler':
                for f in node.body:
                    if isinstance(f, ast.AsyncFunctionDef) and f.name == '_compute_fair_share':
                        ns = {'sortedcontainers': sortedcontainers, 'Dict': typing.Dict, 'List': typing.List, 'Optional': typing.Optional,
                              'Tuple': typing.Tuple, 'Any': typing.Any}
                        exec(compile(ast.Module(body=[f], type_ignores=[]), os.path.join(repo, POOL_PY), 'exec'), ns)

                        class Bare:
                            pass
                        return ns['_compute_fair_share'], Bare()
        raise RuntimeError('PoolScheduler._compute_fair_share not found in pool.py')

    def extra_coverage(self):
        return {'implementation_reached_by': self.how}

    def _real(self, c):
        users = c['users']
        self.db.rows = [{'user': f'u{i}', 'n_ready_jobs': (d + 249) // 250, 'ready_cores_mcpu': d,
                         'n_running_jobs': (r + 249) // 250, 'running_cores_mcpu': r} for i, (r, d) in enumerate(users)]
        res = _drive(self.fn(self.obj, c['free']))
        return res

    def impl(self, c):
        res = self._real(c)
        if not c['users']:
            return ['none' if not res else f'unexpected users {sorted(res)}']
        out = []
        for i in range(len(c['users'])):
            rec = res.get(f'u{i}')
            out.append('missing' if rec is None else repr(rec['allocated_cores_mcpu']))
        return [' '.join(out)]

    def model_lines(self, c):
        return [' '.join(map(str, [c['free']] + [x for rd in c['users'] for x in rd]))]

    # ---- the property, on the real output ------------------------------------------------------------
    def oracle(self, c, out):
        if out[0].startswith('IMPL-EXC'):
            return out[0]
        users = [tuple(u) for u in c['users']]
        free = c['free']
        if not users:
            return None if out[0] == 'none' else out[0]
        toks = out[0].split(' ')
        if len(toks) != len(users):
            return f'{len(toks)} allocations for {len(users)} users'
        alloc = []
        for i, t in enumerate(toks):
            try:
                alloc.append(int(t))
            except ValueError:
                return f'user {i}: allocation {t!r} is not an integer'
        n = len(users)
        demand = sum(d for _, d in users)
        for i, ((r, d), a) in enumerate(zip(users, alloc)):
            if a < 0:
                return f'user {i} (running {r}, ready {d}) is allocated {a} < 0'
            if a > d:
                return f'user {i} (running {r}, ready {d}) is allocated {a} > its ready demand'
        total = sum(alloc)
        if free <= 0 and total != 0:
            return f'free = {free} <= 0 but {total} cores are allocated'
        if 2 * total > 2 * max(free, 0) + n:
            return f'total allocation {total} exceeds free {free} by more than rounding (n/2 = {n}/2)'
        if free > 0 and 2 * total < 2 * min(free, demand) - n:
            return f'only {total} of min(free {free}, demand {demand}) cores handed out (short by more than rounding n/2 = {n}/2)'
        if free > 0 and demand <= free and total != demand:
            return f'demand {demand} <= free {free} but only {total} allocated'
        # common water level: every short user with a positive allocation sits at one level L; short users with 0 have running >= L;
        # fully served users have running + ready <= L
        part = sorted({r + a for (r, d), a in zip(users, alloc) if 0 < a < d})
        if len(part) > 1:
            return f'users left short sit at different levels {part[:4]}'
        lo = max([r + d for (r, d), a in zip(users, alloc) if a == d and d > 0] + part, default=None)
        hi = min([r for (r, d), a in zip(users, alloc) if a == 0 and d > 0] + part, default=None)
        if lo is not None and hi is not None and lo > hi:
            return (f'no common water level: a served user reaches {lo} while a user left short is at {hi} '
                    f'(alloc {alloc}, users {users})')
        # distance to the exact rational max-min fair allocation
        exact, _level = exact_waterfill(users, free)
        for i, (a, e) in enumerate(zip(alloc, exact)):
            if abs(a - e) > Fraction(1, 2):
                return f'user {i}: allocated {a}, exact max-min fair share {e} (difference {float(abs(a - e)):.3f} > 1/2)'
        return None

    # ---- generation ----------------------------------------------------------------------------------
    @staticmethod
    def _value(rng, scale):
        if scale == 'tiny':
            return rng.choice([0, 0, 1, 1, 2, 3, 4, 5])
        if scale == 'mcpu':
            return 250 * rng.choice([0, 1, 1, 2, 4, 4, 8, 16, 3, 5, 64, 100])
        if scale == 'mid':
            return rng.randint(0, 5000)
        k = rng.choice([10, 20, 30, 40])
        return rng.choice([0, rng.randint(0, 2 ** k), 2 ** k, 2 ** k - 1, 2 ** k + 1])

    def _free(self, rng, users):
        n = len(users)
        demand = sum(d for _, d in users)
        m = rng.random()
        if m < 0.08 or not users:
            return rng.choice([0, -1, -rng.randint(1, 2 ** 40), -250]), 'free<=0'
        if m < 0.16:
            return rng.randint(1, max(1, n)), 'tiny'
        if m < 0.28:
            return demand + rng.choice([-1, 0, 0, 1, rng.randint(1, 10 ** 6)]), 'around-demand'
        bps = sorted({r for r, _ in users} | {r + d for r, d in users})
        if len(bps) < 2:
            return rng.randint(1, 10), 'tiny'
        k = rng.randrange(len(bps) - 1)
        lo, hi = bps[k], bps[k + 1]
        g_lo, g_hi = given(lo, users), given(hi, users)
        s = (g_hi - g_lo) // (hi - lo)           # number of users allocating on this segment
        if m < 0.36:
            return g_lo + rng.choice([0, 1, -1]), 'at-breakpoint'
        if s > 0 and m < 0.62:
            j = rng.randrange(0, hi - lo)
            f = s * j + s // 2 + rng.choice([-1, 0, 0, 1])      # free / s = j + 1/2 (+- 1/s): the rounding boundary
            return g_lo + max(f, 0), 'half-boundary'
        return rng.randint(g_lo, max(g_lo, g_hi)), 'between-breakpoints'

    def cases(self, rng, n, tier):
        for _ in range(n):
            nu = rng.choice([0, 1, 1, 2, 2, 3, 3, 4, 5, 6, 7, 8, 9, 10, 11, 12])
            scale = rng.choice(['tiny', 'tiny', 'mcpu', 'mcpu', 'mid', 'big'])
            users = []
            for _i in range(nu):
                sc = scale if rng.random() < 0.85 else rng.choice(['tiny', 'mcpu', 'mid', 'big'])
                r = self._value(rng, sc)
                d = 0 if rng.random() < 0.12 else self._value(rng, sc)
                if users and rng.random() < 0.25:     # ties in running / total / both
                    r0, d0 = rng.choice(users)
                    t = rng.random()
                    if t < 0.4:
                        r = r0
                    elif t < 0.7 and r0 + d0 >= r:
                        d = r0 + d0 - r
                    elif t < 0.85:
                        r, d = r0, d0
                    else:
                        r = r0 + d0        # starts where another one is full
                users.append([r, d])
            free, _mode = self._free(rng, [tuple(u) for u in users])
            yield {'free': free, 'users': users}

    def search_cases(self, rng, n, hint):
        # exhaustive small scope first (1..3 users, values 0..3, free -1..8), then more of the same
        small = []
        vals = [0, 1, 2, 3]
        import itertools
        for nu in (1, 2, 3):
            for combo in itertools.product(vals, repeat=2 * nu):
                users = [[combo[2 * i], combo[2 * i + 1]] for i in range(nu)]
                for free in range(-1, 9):
                    small.append({'free': free, 'users': users})
        rng.shuffle(small)
        return small[:n // 2] + list(self.cases(rng, n - min(len(small), n // 2), 'thorough'))

    def classify(self, c, out):
        users = c['users']
        free = c['free']
        n = len(users)
        demand = sum(d for _, d in users)
        tags = [f'users={n if n <= 4 else "5-8" if n <= 8 else "9-12"}']
        if free <= 0:
            tags.append('free<=0')
        elif demand <= free:
            tags.append('free>=demand')
        else:
            try:
                total = sum(int(t) for t in out[0].split(' '))
                tags.append('stopped-part-way:exact' if total == free else 'stopped-part-way:rounded-up' if total > free
                            else 'stopped-part-way:rounded-down')
            except ValueError:
                tags.append('bad-output')
        rs = [r for r, _ in users]
        ts = [r + d for r, d in users]
        if len(set(rs)) < len(rs) or len(set(ts)) < len(ts):
            tags.append('ties')
        if any(d == 0 for _, d in users):
            tags.append('zero-ready-user')
        if any(max(r, d) >= 2 ** 30 for r, d in users) or abs(free) >= 2 ** 30:
            tags.append('values>=2^30')
        nontrivial = free > 0 and n >= 2 and demand > free
        return (json.dumps(c, sort_keys=True) if nontrivial else None, tags)

    def finding_key(self, c, msg):
        return json.dumps({'free': c['free'], 'users': sorted(map(list, c['users']))}, sort_keys=True)

    def shrink(self, c, fails):
        cur = {'free': c['free'], 'users': [list(u) for u in c['users']]}
        if not fails(cur):
            return c
        cur['users'] = generic_shrink_list(cur['users'], lambda us: fails({'free': cur['free'], 'users': us}))
        # shrink numbers: halve / decrement while it still fails
        changed = True
        rounds = 0
        while changed and rounds < 200:
            changed = False
            rounds += 1
            cands = [{'free': cur['free'] // 2, 'users': [[r // 2, d // 2] for r, d in cur['users']]},
                     {'free': cur['free'] // 2, 'users': [[r, d // 2] for r, d in cur['users']]},
                     {'free': cur['free'], 'users': [[r // 2, d] for r, d in cur['users']]},
                     {'free': cur['free'], 'users': [[r, min(d, cur['free'] + 1)] for r, d in cur['users']]}]
            cands = [x for x in cands if x != cur]
            for f in {cur['free'] // 2, cur['free'] - 1, cur['free'] - len(cur['users'])}:
                if 0 <= f < cur['free']:
                    cands.append({'free': f, 'users': cur['users']})
            for i, (r, d) in enumerate(cur['users']):
                for r2, d2 in {(r // 2, d), (r, d // 2), (r - 1, d), (r, d - 1), (0, d)}:
                    if 0 <= r2 and 0 <= d2 and (r2, d2) != (r, d) and r2 <= r and d2 <= d:
                        us = [list(u) for u in cur['users']]
                        us[i] = [r2, d2]
                        cands.append({'free': cur['free'], 'users': us})
            for cand in cands:
                if fails(cand):
                    cur = cand
                    changed = True
                    break
        return cur


PROP = C11()

"""C40 Weighted transfer semaphore is safe and releases on cancellation — correspondence of WSem.step with the real
hailtop.aiotools.weighted_semaphore.WeightedSemaphore under the deterministic event loop, with cancel injection."""
import importlib.util
import json
import os
import sys

from .. import aloop, loader
from ..framework import Prop, generic_shrink_list
from . import c40_copier


def _fmt(l):
    return ','.join(str(x) for x in l)


class Injected(Exception):
    """the exception a `fail` op raises inside the body"""


class C40(Prop):
    id = 'C40'
    title = 'Weighted transfer semaphore is safe and releases on cancellation'
    lean_props = ['HailVerif.Props.C40']
    driver = 'Driver/C40.lean'
    engine = 'E2-async'
    design_ref = 'DESIGN.md §4 C40'
    technique = ('Lean 4 proof by induction over op lists of a state-machine model whose steps are the atomic blocks between awaits '
                 '(including delivery of CancelledError in each phase) + differential correspondence with the real class under a '
                 'deterministic asyncio loop with cancel injection')
    level_text = ('Theorems for all op lists (all interleavings of acquire / normal exit / exit by exception / cancellation / resumption, '
                  'weights <= max): value >= 0 and value + held = max; the three exit kinds of a holder are the same step and return its '
                  'weight; a waiter cancelled before being granted is removed and changes nothing else; a waiter cancelled after being granted '
                  'but before resuming hands the weight back; after every step no waiter fits in the free value (the head is the smallest); '
                  'idle means full and nobody waiting. A concrete example shows that the pre-fix behaviour (cancelled entry left queued) '
                  'breaks the invariant on the 4-op witness. The model is tied to the real WeightedSemaphore by comparing (value, holders, '
                  'waiter order) after every group of ops, including release+cancel issued in the same loop iteration. Caller level (no theorem, '
                  'oracle only): the real copier file / multi-part paths over one small semaphore keep buffers in flight <= budget and leave the '
                  'semaphore full when all transfers have finished, under cancellation at every suspension and failing I/O.')
    level_note = ('Trusted: Lean kernel; the hand-written model WSem agrees with the Python class only as far as the correspondence cases '
                  'show; asyncio atomicity between awaits and its cancellation delivery (Task.cancel / _must_cancel) as implemented by CPython 3.12.')
    budget = {'quick': 5000, 'thorough': 40000}
    search_budget = {'quick': 6000, 'thorough': 40000}
    rule = ('case = (max, list of groups of ops[, weights of shared manager objects]); jobs are coroutines `async with '
            'sem.acquire_manager(w): await gate` — or `async with m:` for a manager object m created once per case and entered again and '
            'again, sequentially and by concurrent tasks; ops: a=spawn a job, '
            '(with an optional j: the task is cancelled at its j-th suspension, wherever that is — a task-step hook counts every time the '
            'task hands control back to the loop, so every await point of acquire, present or future, can be hit), '
            'r=open its gate, f=open its gate with an exception, c=Task.cancel() issued directly, cs=Task.cancel() issued from a callback '
            'queued behind the other actions of the group; the actions of one group are issued without running the loop in between (same loop '
            'iteration), then the loop runs to quiescence and (sem.value, ids inside the body, order of sem.events, ids that hit the '
            'assertion) is compared with the model; caller-level cases (kind=copier) drive the real SourceCopier file / multi-part paths of '
            'several files over one small real WeightedSemaphore with gated in-memory I/O, cancellation at the j-th suspension and failing '
            'I/O, and check from outside: buffers in flight <= budget, nobody stuck, value == max when all transfers are finished; the oracle also looks at sem.value and the running bodies at every body entry; non-trivial = some acquire had to wait or some cancel was injected; distinct by full case')
    trusted = ['caller-level cases: harness/props/c40_copier.py in-memory file system (gated) standing for the AsyncFS the copier talks to',
               'harness/aloop.py deterministic event loop (real asyncio.SelectorEventLoop; ready queue never permuted)',
               'sortedcontainers.SortedKeyList (real package)',
               'waiter order is read from sem.events through asyncio.Event._waiters / Task._fut_waiter (falls back to (weight, arrival))']
    assumptions = ['one event loop thread; code is atomic between awaits', 'a cancelled task does not suppress CancelledError inside the body']

    def setup(self, repo):
        path = os.path.join(repo, 'hail', 'python', 'hailtop', 'aiotools', 'weighted_semaphore.py')
        spec = importlib.util.spec_from_file_location('verif_c40_weighted_semaphore', path)
        mod = importlib.util.module_from_spec(spec)
        spec.loader.exec_module(mod)     # stdlib + sortedcontainers only; loaded by path (hailtop/aiotools/__init__ pulls in cloud SDKs)
        self.Sem = mod.WeightedSemaphore
        self._info = {}
        # caller level: the real copier (hailtop.aiotools.fs.copier) with its own import of WeightedSemaphore
        loader.install(repo)
        import hailtop.aiotools.fs.copier as copier_mod
        self.copier_mod = copier_mod
        self._cobs = {}

    # ---- generation (reference bookkeeping used ONLY to produce protocol-respecting ops; not the oracle) ----------------
    class _Sim:
        def __init__(self, m):
            self.max, self.value = m, m
            self.waiters, self.granted, self.holders = [], [], {}
            self.seq = 0
            self.cnt = {}       # task -> suspensions left before its injected cancellation
            self.late = []      # tasks whose injected cancellation is due

        def _drain(self):
            while self.waiters and self.value >= self.waiters[0][0]:
                w, _, i = self.waiters.pop(0)
                self.value -= w
                self.granted.append((w, i))

        def op(self, o):
            k = o[0]
            if k == 'a':
                i, w = o[1], o[2]
                self.cnt.pop(i, None)
                if w > self.max:
                    return
                if len(o) > 3 and o[3]:  # cancel at its o[3]-th suspension; after this block it is suspended for the first time
                    if o[3] == 1:
                        self.late.append(i)
                    else:
                        self.cnt[i] = o[3] - 1
                if self.value >= w:
                    self.value -= w
                    self.holders[i] = w
                else:
                    self.seq += 1
                    self.waiters.append((w, self.seq, i))
                    self.waiters.sort()
            elif k in ('r', 'f'):
                self.value += self.holders.pop(o[1])
                self._drain()
            else:
                i = o[1]
                if i in self.holders:
                    self.value += self.holders.pop(i)
                    self._drain()
                elif any(j == i for _, j in self.granted):
                    w = [w for w, j in self.granted if j == i][0]
                    self.granted = [(w_, j) for w_, j in self.granted if j != i]
                    self.value += w
                    self._drain()
                else:
                    self.waiters = [e for e in self.waiters if e[2] != i]

        def settle(self):
            while self.late or self.granted:
                if self.late:
                    late, self.late = self.late, []
                    for i in late:
                        if i in self.active():
                            self.op(['c', i])
                else:
                    w, i = self.granted.pop(0)
                    self.holders[i] = w
                    if i in self.cnt:
                        self.cnt[i] -= 1
                        if self.cnt[i] == 0:
                            del self.cnt[i]
                            self.late.append(i)

        def active(self):
            return set(self.holders) | {i for _, _, i in self.waiters} | {i for _, i in self.granted}

    def _replay_sim(self, m, groups):
        s = self._Sim(m)
        for g in groups:
            for o in self._ordered(g):
                s.op(o)
            s.settle()
        return s

    @staticmethod
    def _ordered(g):
        """order in which the blocks of a group execute: directly issued actions in order, then the `cs` cancellations"""
        return [o for o in g if o[0] != 'cs'] + [o for o in g if o[0] == 'cs']

    def _random_group(self, rng, s, max_tasks, p_multi, p_step=0.0, mgrs=()):
        n_ops = 1 if rng.random() > p_multi else rng.choice([2, 2, 3])
        used = set()
        g = []
        # a group that starts with an exit makes the "granted then cancelled in the same iteration" schedule likely
        for k in range(n_ops):
            holders = [i for i in s.holders if i not in used]
            waiters = [i for _, _, i in s.waiters if i not in used]
            free_ids = [j for j in range(max_tasks) if j not in s.active() and j not in used]
            choices = []
            if free_ids:
                choices += ['a'] * 4
            if holders:
                choices += ['r'] * 3 + ['f'] + ['c']
            if waiters:
                choices += ['c'] * 2 + ['cs'] * (2 if g else 0)
            if not choices:
                break
            if k > 0 and g[0][0] in ('r', 'f') and waiters and rng.random() < 0.6:
                kind = rng.choice(['c', 'cs'])
                i = waiters[0] if rng.random() < 0.7 else rng.choice(waiters)   # smallest waiter = the one the release grants
                g.append([kind, i])
                used.add(i)
                continue
            kind = rng.choice(choices)
            if kind == 'a':
                i = rng.choice(free_ids)
                r = rng.random()
                w = s.max if r < 0.25 else 1 if r < 0.45 else rng.randint(1, s.max)
                if rng.random() < 0.02:
                    w = s.max + 1                       # hits `assert n <= self.max`
                if rng.random() < 0.05:
                    w = 0
                j = rng.choice([1, 1, 2, 3]) if rng.random() < p_step else 0   # cancelled at its j-th await point, whatever that is
                if mgrs and rng.random() < 0.6:
                    gi = rng.randrange(len(mgrs))                   # enters the shared manager object gi (again)
                    g.append(['a', i, mgrs[gi], j, gi])
                elif j:
                    g.append(['a', i, w, j])
                else:
                    g.append(['a', i, w])
            elif kind in ('r', 'f'):
                i = rng.choice(holders)
                g.append([kind, i])
            else:
                pool = (holders if rng.random() < 0.3 and holders else waiters) or holders
                i = rng.choice(pool)
                g.append([kind, i])
            used.add(i)
        # `cs` only at the end (its delivery lands behind the directly issued actions)
        return [o for o in g if o[0] != 'cs'] + [o for o in g if o[0] == 'cs']

    def _random_case(self, rng):
        m = rng.choice([1, 2, 2, 3, 4, 6])
        max_tasks = rng.choice([3, 4, 5, 6])
        n = rng.choice([3, 5, 7, 10, 14])
        p_multi = rng.choice([0.0, 0.3, 0.6])
        p_step = rng.choice([0.0, 0.15, 0.3])
        mgrs = [] if rng.random() < 0.55 else [rng.randint(1, m) for _ in range(rng.choice([1, 1, 2]))]
        groups = []
        s = self._Sim(m)
        for _ in range(n):
            g = self._random_group(rng, s, max_tasks, p_multi, p_step, mgrs)
            if not g:
                break
            groups.append(g)
            for o in self._ordered(g):
                s.op(o)
            s.settle()
        return {'max': m, 'groups': groups, **({'mgrs': mgrs} if mgrs else {})}

    def _exhaustive(self, m, length, max_tasks, pairs=True):
        out = []

        def rec(groups):
            if len(groups) == length:
                out.append({'max': m, 'groups': [[list(o) for o in g] for g in groups], 'mgrs': [1]})
                return
            s = self._replay_sim(m, groups)
            active = s.active()
            nxt = []
            if len(active) < max_tasks:
                i = min(j for j in range(max_tasks) if j not in active)
                nxt += [[['a', i, w]] for w in range(0, m + 1)]
                nxt += [[['a', i, w, j]] for w in range(1, m + 1) for j in (1, 2)]     # cancelled at its 1st / 2nd await point
                nxt += [[['a', i, 1, j, 0]] for j in (0, 1)]                           # enters the ONE shared manager (weight 1)
            holders = sorted(s.holders)
            waiters = [i for _, _, i in s.waiters]
            nxt += [[['r', i]] for i in holders]
            nxt += [[['c', i]] for i in holders + waiters]
            if pairs:
                for i in holders:
                    for j in waiters:
                        nxt += [[['r', i], ['c', j]], [['r', i], ['cs', j]], [['c', j], ['r', i]]]
                    for j in holders:
                        if j != i:
                            nxt += [[['r', i], ['cs', j]]]
                        if i < j:
                            nxt += [[['r', i], ['r', j]]]          # two exits before any woken waiter runs
                if len(active) < max_tasks:
                    i = min(j for j in range(max_tasks) if j not in active)
                    for h in holders:                              # an exit and a newcomer in the same iteration, both orders
                        for w in range(1, m + 1):
                            nxt += [[['r', h], ['a', i, w]], [['a', i, w], ['r', h]]]
            for g in nxt:
                rec(groups + [g])
        rec([])
        return out

    def cases(self, rng, n, tier):
        if tier == 'thorough':
            # every protocol-respecting sequence of exactly 5 (max 1) / 4 (max 2, 3) groups over <= 4 tasks, weights 0..max, where a
            # group is a single op (acquire possibly with a cancellation at its 1st / 2nd suspension) or a same-iteration pair
            # (exit;cancel / exit;cancel-soon / cancel;exit / exit;exit / exit;acquire / acquire;exit); shorter ones are prefixes
            for m, length in ((1, 5), (2, 4), (3, 4)):
                yield from self._exhaustive(m, length, 4)
            yield from c40_copier.exhaustive(1, 2, 3)
            yield from c40_copier.exhaustive(2, 2, 4)
        else:
            for m in (1, 2):
                yield from self._exhaustive(m, 4, 3)
            yield from c40_copier.exhaustive(1, 2, 3)
        for _ in range(n):
            yield self._random_case(rng)
        for _ in range(n // 5):
            yield c40_copier.random_case(rng)       # caller level: the real copier's file / multi-part paths over the semaphore

    def search_cases(self, rng, n, hint):
        for m in (1, 2, 3):
            yield from self._exhaustive(m, 4, 3)
        yield from c40_copier.exhaustive(1, 2, 3)
        for _ in range(n):
            yield self._random_case(rng)
        for _ in range(n // 5):
            yield c40_copier.random_case(rng)

    # ---- model ---------------------------------------------------------------------------------
    _NAMES = {'a': 'acquire', 'r': 'release', 'f': 'fail', 'c': 'cancel', 'cs': 'cancel'}

    def model_lines(self, c):
        # `acquire i w j`: the task is cancelled at its j-th suspension (in the model: 1st = in `event.wait()` if it had to queue,
        # else at the gate inside the body; the fast path of `acquire` has no suspension point)
        if c.get('kind') == 'copier':
            return []          # caller-level case: no model lines, the oracle works on the observations of the real copier
        out = ['reset', f"max {c['max']}"]
        for g in c['groups']:
            # (a 5th element of an acquire op names the shared manager object it enters; for the model a manager is the value (sema, n))
            out.append(';'.join(' '.join([self._NAMES[o[0]]] + [str(x) for x in o[1:4]]) for o in self._ordered(g)))
        return out

    # ---- real code -----------------------------------------------------------------------------
    def _waiting_order(self, sem, tasks, arrival):
        """ids of the blocked jobs in the order of sem.events; an entry nobody waits on is shown as `?`"""
        try:
            order = []
            for _n, ev in sem.events:
                owner = [i for i, t in tasks.items() if not t.done() and t._fut_waiter is not None and t._fut_waiter in ev._waiters]
                order.append(owner[0] if len(owner) == 1 else '?')
            return order
        except (AttributeError, TypeError, ValueError):
            return [i for _, _, i in sorted(arrival)]

    def _copier_obs(self, c):
        key = json.dumps(c, sort_keys=True)
        if key not in self._cobs:
            self._cobs[key] = c40_copier.observe(self.copier_mod, c)
        return self._cobs[key]

    def impl(self, c):
        if c.get('kind') == 'copier':
            self._cobs.pop(json.dumps(c, sort_keys=True), None)
            self._copier_obs(c)
            return []
        s = aloop.Sched()
        all_tasks = []
        info = {'handback': 0, 'cancel_waiter': 0, 'cancel_holder': 0, 'queued': 0, 'same_iter': 0}
        try:
            sem = self.Sem(c['max'])
            inside = set()
            tasks = {}
            weights = {}
            gen = {}
            arrival = []     # (weight, seq, id) of jobs that did not enter at once (fallback ordering only)
            seq = [0]
            n_release = [0]
            stepped_ids = set()
            cur_group = [0]
            real_release = sem.release

            def counting_release(n):
                n_release[0] += 1
                return real_release(n)
            sem.release = counting_release      # instance attribute: `_AcquireManager.__aexit__` and `acquire` both call `ws.release`

            managers = [sem.acquire_manager(w) for w in c.get('mgrs', [])]     # created ONCE, entered any number of times
            in_mgr = {}          # manager index -> tasks currently inside it (measurement)

            async def job(i, w, gate, mgr=None):
                async with (sem.acquire_manager(w) if mgr is None else managers[mgr]):
                    inside.add(i)
                    # the property at the moment a body starts (woken waiters that have not run yet own their weight already)
                    running = sum(weights[j] for j in inside)
                    if (sem.value < 0 or sem.value + running > c['max']) and 'transient' not in info:
                        info['transient_group'] = cur_group[0]
                        info['transient'] = (f'when task {i} entered its body: value {sem.value}, running bodies {sorted(inside)} use '
                                             f"{running}, max {c['max']}")
                    try:
                        await gate
                    finally:
                        inside.discard(i)

            def line(asserted):
                arrival[:] = [e for e in arrival if e[2] in tasks and not tasks[e[2]].done() and e[2] not in inside]
                return (f'v={sem.value} h={_fmt(sorted(inside))} q={_fmt(self._waiting_order(sem, tasks, arrival))} '
                        f'a={_fmt(asserted)}')

            out = ['ok', line([])]
            for gk, g in enumerate(c['groups']):
                cur_group[0] = gk
                ids = [o[1] for o in g]
                legal = len(set(ids)) == len(ids)
                for o in g:
                    i = o[1]
                    alive = i in tasks and not tasks[i].done()
                    if o[0] == 'a':
                        legal = legal and not alive
                    elif o[0] in ('r', 'f'):
                        legal = legal and i in inside
                    else:
                        legal = legal and alive
                if not legal:
                    out.append('err')
                    continue
                spawned = []
                exits = 0
                if len(g) > 1:
                    info['same_iter'] += 1
                for o in g:
                    i = o[1]
                    if o[0] == 'a':
                        gen[i] = gen.get(i, 0) + 1
                        weights[i] = o[2]
                        cancel_at = o[3] if len(o) > 3 else 0
                        stepped_ids.discard(i)
                        if cancel_at:
                            stepped_ids.add(i)
                            info['step_cancel'] = info.get('step_cancel', 0) + 1

                        def on_suspend(n, i=i, g_=gen[i], cancel_at=cancel_at):
                            if n == cancel_at and gen[i] == g_:
                                where = 'body' if i in inside else 'acquire'
                                info['step_cancel_' + where] = info.get('step_cancel_' + where, 0) + 1
                                s.loop.call_soon(tasks[i].cancel)
                        mgr = o[4] if len(o) > 4 else None
                        if mgr is not None:
                            if weights[i] != c['mgrs'][mgr]:
                                raise ValueError('case: weight of an op that enters a shared manager must be the manager weight')
                            users = in_mgr.setdefault(mgr, {'n': 0, 'live': set()})
                            users['live'] = {j for j in users['live'] if j in tasks and not tasks[j].done()}
                            info['mgr_reentered'] = info.get('mgr_reentered', 0) + (1 if users['n'] else 0)
                            info['mgr_shared_concurrently'] = info.get('mgr_shared_concurrently', 0) + (1 if users['live'] else 0)
                            users['n'] += 1
                            users['live'].add(i)
                        tasks[i] = s.spawn(i, aloop.stepped(job(i, o[2], s.gate((i, gen[i])), mgr), on_suspend), settle=False)
                        all_tasks.append(tasks[i])
                        spawned.append(i)
                    elif o[0] == 'r':
                        exits += 1
                        s.open((i, gen[i]), settle=False)
                    elif o[0] == 'f':
                        exits += 1
                        s.open((i, gen[i]), exc=Injected(), settle=False)
                    else:
                        if i in inside:
                            exits += 1
                            info['cancel_holder'] += 1
                        else:
                            info['cancel_waiter'] += 1
                        if o[0] == 'c':
                            s.cancel(i, settle=False)
                        else:
                            s.cancel_soon(i)
                before = n_release[0]
                sb = info.get('step_cancel_body', 0)
                s.settle()
                exits += info.get('step_cancel_body', 0) - sb
                info['handback'] += max(0, n_release[0] - before - exits)
                # tasks with an injected step-cancellation that are gone now (observed on the real run)
                info.setdefault('step_done', {})[gk] = [i for i, t in tasks.items() if i in stepped_ids and t.done()]
                asserted = []
                for i in spawned:
                    t = tasks[i]
                    if t.done() and not t.cancelled() and isinstance(t.exception(), AssertionError):
                        asserted.append(i)
                    elif not t.done() and i not in inside:
                        seq[0] += 1
                        arrival.append((weights[i], seq[0], i))
                        info['queued'] += 1
                for t in all_tasks:
                    if t.done() and not t.cancelled():
                        e = t.exception()
                        if e is not None and not isinstance(e, (Injected, AssertionError)):
                            raise e
                out.append(line(asserted))
            self._info[json.dumps(c, sort_keys=True)] = info
            return out
        finally:
            for t in all_tasks:
                if t.done() and not t.cancelled():
                    t.exception()
            s.close()

    # ---- the property on the real behaviour -------------------------------------------------------
    @staticmethod
    def _parse(line):
        d = {}
        for tok in line.split(' '):
            k, _, v = tok.partition('=')
            d[k] = v
        f = lambda x: [int(y) for y in x.split(',') if y not in ('', '?')]
        return int(d['v']), f(d['h']), f(d['a'])

    def oracle(self, c, out):
        if out and out[0].startswith('IMPL-EXC'):
            return out[0]
        if c.get('kind') == 'copier':
            return c40_copier.check(c, self._copier_obs(c))
        m = c['max']
        info = self._info.get(json.dumps(c, sort_keys=True)) or {}
        weights = {}
        alive = set()       # tasks spawned and not yet exited / cancelled / failed the assertion (from the ops)
        for k, (g, ln) in enumerate(zip(c['groups'], out[2:])):
            if ln == 'err':
                return None  # the op list does not respect the protocol: outside the quantifier
            if info.get('transient') and info.get('transient_group') == k:
                return f"group {k} {g}: {info['transient']}"
            v, h, a = self._parse(ln)
            at = f'after group {k} {g}'
            gone = set()
            for o in g:
                if o[0] == 'a':
                    weights[o[1]] = o[2]
                    alive.add(o[1])
                else:
                    gone.add(o[1])
            for i in a:
                if weights[i] <= m:
                    return f'{at}: acquire({weights[i]}) of task {i} raised AssertionError although max is {m}'
            alive -= gone | set(a) | set((info.get('step_done') or {}).get(k, []))
            for i in alive:
                if weights[i] > m:
                    return f'{at}: acquire({weights[i]}) with max {m} did not raise'
            if v < 0:
                return f'{at}: value {v} < 0'
            for i in h:
                if i in gone:
                    kind = [o[0] for o in g if o[1] == i][0]
                    return f'{at}: task {i} is still in the body after op {kind}'
                if i not in alive:
                    return f'{at}: task {i} is in the body but was never started / has left'
            held = sum(weights[i] for i in h)
            if v + held != m:
                return (f'{at}: value {v} + held {held} != max {m} (in the body: {h}); a weight was not returned on exit, or a '
                        f'cancelled waiter consumed capacity')
            waiting = sorted(alive - set(h))
            fit = [i for i in waiting if weights[i] <= v]
            if fit:
                return f'{at}: task(s) {fit} wait although their weight fits in the free value {v}'
        return None

    def classify(self, c, out):
        key = json.dumps(c, sort_keys=True)
        if c.get('kind') == 'copier':
            if out and out[0].startswith('IMPL-EXC'):
                return (None, ['copier', 'copier-impl-exception'])
            o = self._copier_obs(c)
            tags = ['copier', f"copier-budget={c['budget'] // c['buf']}buf"]
            need = sum(min(c['buf'], f['size']) if f['size'] <= c['part'] else c['buf'] for f in c['files'])
            contended = need > c['budget']
            tags.append('copier-contended' if contended else 'copier-uncontended')
            if any(f['size'] > c['part'] for f in c['files']):
                tags.append('copier-multi-part')
            if o['cancel_before_first_fs_call']:
                tags.append('copier-cancelled-before-first-fs-call(in-acquire-when-contended)')
            if o['cancel_later']:
                tags.append('copier-cancelled-while-holding-or-later')
            if 'failed' in o['outcome']:
                tags.append('copier-fs-operation-raised')
            if o['peak'] == c['budget']:
                tags.append('copier-budget-fully-used')
            return (key if contended else None, tags)
        info = self._info.get(key) or {}
        tags = [f"groups={min(len(c['groups']), 14)}", f"max={c['max']}"]
        for k in ('queued', 'cancel_waiter', 'cancel_holder', 'same_iter'):
            if info.get(k):
                tags.append(k)
        if info.get('handback'):
            tags.append('granted-then-cancelled(hand-back)')
        for k2, name in (('step_cancel', 'cancel-at-jth-await-requested'), ('step_cancel_acquire', 'step-cancel-hit-inside-acquire'),
                         ('step_cancel_body', 'step-cancel-hit-inside-body')):
            if info.get(k2):
                tags.append(name)
        if any(o[0] == 'f' for g in c['groups'] for o in g):
            tags.append('exit-by-exception')
        if info.get('mgr_reentered'):
            tags.append('manager-object-entered-again')
        if info.get('mgr_shared_concurrently'):
            tags.append('manager-object-shared-by-concurrent-tasks')
        if any('a=' in l and not l.endswith('a=') for l in out):
            tags.append('assertion')
        if 'err' in out:
            tags.append('protocol-err')
        nontrivial = (info.get('queued') or info.get('cancel_waiter') or info.get('cancel_holder') or info.get('step_cancel_acquire')
                      or info.get('step_cancel_body'))
        if not nontrivial:
            tags.append('no-contention-no-cancel')
        return (key if nontrivial else None, tags)

    def finding_key(self, c, msg):
        return json.dumps(c, sort_keys=True)

    def shrink(self, c, fails):
        if not fails(c):
            return c
        if c.get('kind') == 'copier':
            files = generic_shrink_list(c['files'], lambda fs: fails({**c, 'files': fs}))
            cur = {**c, 'files': files}
            for i, f in enumerate(cur['files']):
                for key in ('cancel', 'fail'):
                    if key in f:
                        f2 = {k: v for k, v in f.items() if k != key}
                        cand = {**cur, 'files': cur['files'][:i] + [f2] + cur['files'][i + 1:]}
                        if fails(cand):
                            cur = cand
            return cur
        groups = generic_shrink_list(c['groups'], lambda gs: fails({'max': c['max'], 'groups': gs}))
        # split groups into single ops where the failure survives
        changed = True
        while changed:
            changed = False
            for k, g in enumerate(groups):
                if len(g) > 1:
                    for drop in range(len(g)):
                        cand = groups[:k] + [g[:drop] + g[drop + 1:]] + groups[k + 1:]
                        if fails({'max': c['max'], 'groups': cand}):
                            groups = cand
                            changed = True
                            break
                    if changed:
                        break
        return {'max': c['max'], 'groups': groups}


PROP = C40()

"""C16 Worker CPU semaphore is safe, FIFO and live — correspondence of FifoSem.step with the real
batch.semaphore.FIFOWeightedSemaphore driven under the deterministic event loop (harness/aloop.py)."""
import importlib.util
import json
import os

from .. import aloop
from ..framework import Prop, generic_shrink_list


def _fmt(l):
    return ','.join(str(x) for x in l)


class C16(Prop):
    id = 'C16'
    title = 'Worker CPU semaphore is safe, FIFO and live'
    lean_props = ['HailVerif.Props.C16']
    driver = 'Driver/C16.lean'
    engine = 'E2-async'
    design_ref = 'DESIGN.md §4 C16'
    technique = ('Lean 4 proof by induction over op lists of a state-machine model whose steps are the atomic blocks between awaits + '
                 'differential correspondence with the real class under a deterministic asyncio loop')
    level_text = ('Theorems for all op lists (all interleavings of acquire / release / resumption of a woken waiter by any number of tasks, '
                  'including several releases or a release and a new acquire before a woken waiter runs; weights <= capacity): value + held = '
                  'capacity and value >= 0, where held counts running bodies AND woken waiters (a woken waiter owns its weight); running bodies '
                  '<= capacity; resuming changes nothing; tasks granted from the queue ++ tasks still queued = tasks that queued, in arrival '
                  'order (FIFO); an arrival never overtakes a non-empty queue; after every step a non-empty queue has a head that does not fit; '
                  'nobody waits when nothing is handed out. The model is tied to the real FIFOWeightedSemaphore by comparing (value, ids in a '
                  'body, waiting order, body-entry order) after every group of ops issued inside one loop iteration, on random and exhaustive '
                  'small group sequences.')
    level_note = ('Trusted: Lean kernel; the hand-written model FifoSem agrees with the Python class only as far as the correspondence cases '
                  'show; asyncio atomicity between awaits; cancellation of waiters is outside the property.')
    budget = {'quick': 5000, 'thorough': 40000}
    search_budget = {'quick': 5000, 'thorough': 40000}
    rule = ('case = (capacity, sequence of groups of ops); jobs are coroutines `async with sem(w): await gate`; op acquire = spawn a job, op '
            'release = open its gate; the ops of a group are issued without running the loop in between (their blocks run back to back in one '
            'loop iteration, before any waiter they wake runs), then the loop is run to quiescence and (sem.value, ids inside a body, waiting '
            'order, order in which jobs entered their body during the group) is compared with the model; the oracle additionally looks at '
            'sem.value and the set of running bodies at the moment of every body entry; non-trivial = at least one acquire had to queue; '
            'distinct by full case')
    trusted = ['harness/aloop.py deterministic event loop (real asyncio.SelectorEventLoop with a virtual clock; ready queue never permuted)',
               'waiting order is read from sem.queue through asyncio.Event._waiters / Task._fut_waiter (falls back to arrival order)']
    assumptions = ['waiters are not cancelled (explicitly outside C16)', 'one event loop thread; code is atomic between awaits']

    def setup(self, repo):
        path = os.path.join(repo, 'batch', 'batch', 'semaphore.py')
        spec = importlib.util.spec_from_file_location('verif_c16_semaphore', path)
        mod = importlib.util.module_from_spec(spec)
        spec.loader.exec_module(mod)     # pure stdlib module; loaded by path so that the batch package __init__ is not needed
        self.Sem = mod.FIFOWeightedSemaphore
        self._obs = {}

    # ---- generation ----------------------------------------------------------------------------
    # case = {'cap': c, 'groups': [[op, ...], ...]}; op = ['a', i, w] | ['r', i].  The ops of one group are issued inside ONE event-loop
    # iteration (their atomic blocks run back to back, before any waiter woken by them runs); then the loop runs to quiescence.
    @staticmethod
    def _groups(c):
        return c['groups'] if 'groups' in c else [[o] for o in c['ops']]

    @staticmethod
    def _sim(cap, groups):
        """reference bookkeeping used ONLY to generate protocol-respecting groups (who is in a body at the start of a group); not the
        oracle.  Raises KeyError when a group releases a task that is not in a body at the start of the group."""
        value, queue, holders = cap, [], {}
        for g in groups:
            inbody = set(holders)
            for op in g:
                if op[0] == 'a':
                    _, i, w = op
                    if not queue and value >= w:
                        value -= w
                        holders[i] = w
                    else:
                        queue.append((i, w))
                else:
                    if op[1] not in inbody:
                        raise KeyError(op[1])
                    inbody.discard(op[1])
                    w = holders.pop(op[1])
                    value += w
                    while queue and value >= queue[0][1]:
                        i, w = queue.pop(0)
                        value -= w
                        holders[i] = w
        return value, queue, holders

    def _random_case(self, rng):
        cap = rng.choice([1, 2, 3, 4, 4, 5, 6, 8])
        max_tasks = rng.choice([2, 3, 4, 5, 6, 8])
        n = rng.choice([3, 5, 7, 9, 12, 16])
        style = rng.random()
        p_multi = rng.choice([0.0, 0.3, 0.6])
        groups = []
        for _ in range(n):
            _, queue, holders = self._sim(cap, groups)
            active = set(holders) | {i for i, _ in queue}
            free_ids = [j for j in range(max_tasks) if j not in active]
            can_release = sorted(holders)
            g = []
            for _k in range(1 if rng.random() >= p_multi else rng.choice([2, 2, 3])):
                p_acq = 0.65 if style < 0.5 else 0.5
                # same-tick groups are interesting when they release while somebody is queued
                if g and queue and can_release and rng.random() < 0.6:
                    p_acq = 0.25
                if can_release and (not free_ids or rng.random() > p_acq):
                    i = rng.choice(can_release)
                    can_release.remove(i)
                    g.append(['r', i])
                elif free_ids:
                    i = rng.choice(free_ids)
                    free_ids.remove(i)
                    r = rng.random()
                    w = cap if r < 0.25 else 1 if r < 0.45 else 0 if r < 0.55 else rng.randint(0, cap)   # worker.py really uses 0 mcpu
                    g.append(['a', i, w])
            if g:
                groups.append(g)
        return {'cap': cap, 'groups': groups}

    def _exhaustive(self, cap, length, max_tasks, pairs=True):
        """every protocol-respecting sequence of exactly `length` groups, a group being one op or a same-iteration pair
        release;release / release;acquire / acquire;release (task ids are interchangeable: a new task gets the smallest free id)"""
        out = []

        def rec(groups):
            if len(groups) == length:
                out.append({'cap': cap, 'groups': [[list(o) for o in g] for g in groups]})
                return
            _, queue, holders = self._sim(cap, groups)
            active = set(holders) | {i for i, _ in queue}
            acqs = []
            if len(active) < max_tasks:
                i = min(j for j in range(max_tasks) if j not in active)
                acqs = [['a', i, w] for w in range(0, cap + 1)]      # weight 0 included
            rels = [['r', i] for i in sorted(holders)]
            nxt = [[o] for o in acqs + rels]
            if pairs:
                nxt += [[r1, r2] for r1 in rels for r2 in rels if r1[1] < r2[1]]
                nxt += [[r, a] for r in rels for a in acqs] + [[a, r] for r in rels for a in acqs]
            for g in nxt:
                rec(groups + [g])
        rec([])
        return out

    def cases(self, rng, n, tier):
        if tier == 'thorough':
            # weights 0..cap.  singles only: every sequence of 7 ops (cap 1, 2) / 6 ops (cap 3, 4), <= 4 tasks; with same-iteration
            # pairs: 5 groups (cap 1, 2) / 4 groups (cap 3, 4)
            for cap, length in ((1, 7), (2, 7), (3, 6), (4, 6)):
                yield from self._exhaustive(cap, length, 4, pairs=False)
            for cap, length in ((1, 5), (2, 5), (3, 4), (4, 4)):
                yield from self._exhaustive(cap, length, 4)
        else:
            for cap in (1, 2):
                yield from self._exhaustive(cap, 4, 4)
        for _ in range(n):
            yield self._random_case(rng)

    def search_cases(self, rng, n, hint):
        for cap in (1, 2, 3):
            yield from self._exhaustive(cap, 4, 4)
        for _ in range(n):
            yield self._random_case(rng)

    # ---- model ---------------------------------------------------------------------------------
    def model_lines(self, c):
        return ['reset', f"cap {c['cap']}"] + [';'.join(f'acquire {o[1]} {o[2]}' if o[0] == 'a' else f'release {o[1]}' for o in g)
                                               for g in self._groups(c)]

    # ---- real code -----------------------------------------------------------------------------
    def _waiting_order(self, sem, tasks, arrival):
        """ids of the blocked jobs in the order of sem.queue (events mapped to the task blocked on them)"""
        try:
            order = []
            for ev, _w in sem.queue:
                owner = [i for i, t in tasks.items() if not t.done() and t._fut_waiter is not None and t._fut_waiter in ev._waiters]
                if len(owner) != 1:
                    raise AttributeError
                order.append(owner[0])
            return order
        except (AttributeError, TypeError, ValueError):
            return list(arrival)

    def _observe(self, c):
        """run the real class; returns (lines, obs) with obs[k] = what happened during group k:
        entries = [(task, entered without waiting?, sem.value right after it entered, ids in a body right then)], value/inside at rest"""
        s = aloop.Sched()
        try:
            sem = self.Sem(c['cap'])
            inside = set()
            entries = []
            tasks = {}
            gen = {}
            arrival = []

            async def job(i, w, gate):
                yielded = [False]
                # runs as soon as this task yields for the first time, i.e. before any wake-up of it can be scheduled
                s.loop.call_soon(yielded.__setitem__, 0, True)
                async with sem(w):
                    inside.add(i)
                    entries.append((i, not yielded[0], sem.value, sorted(inside)))
                    try:
                        await gate
                    finally:
                        inside.discard(i)

            def line():
                g = [e[0] for e in entries]
                for i in g:
                    if i in arrival:
                        arrival.remove(i)
                return f'v={sem.value} h={_fmt(sorted(inside))} q={_fmt(self._waiting_order(sem, tasks, arrival))} g={_fmt(g)}'

            out = ['ok', line()]
            obs = []
            for g in self._groups(c):
                ids = [o[1] for o in g]
                legal = len(set(ids)) == len(ids)
                for o in g:
                    if o[0] == 'a':
                        legal = legal and not (o[1] in tasks and not tasks[o[1]].done())
                    else:
                        legal = legal and o[1] in inside
                if not legal:
                    out.append('err')
                    obs.append(None)
                    continue
                del entries[:]
                for o in g:
                    i = o[1]
                    if o[0] == 'a':
                        gen[i] = gen.get(i, 0) + 1
                        arrival.append(i)
                        tasks[i] = s.spawn(i, job(i, o[2], s.gate((i, gen[i]))), settle=False)
                    else:
                        s.open((i, gen[i]), settle=False)
                s.settle()
                for i, t in tasks.items():
                    if t.done() and not t.cancelled() and t.exception() is not None:
                        raise t.exception()
                obs.append({'entries': [list(e) for e in entries], 'v': sem.value, 'h': sorted(inside)})
                out.append(line())
            return out, obs
        finally:
            s.close()

    def impl(self, c):
        out, obs = self._observe(c)
        self._obs[json.dumps(c, sort_keys=True)] = obs
        return out

    def _get_obs(self, c):
        o = self._obs.get(json.dumps(c, sort_keys=True))
        if o is None:
            _, o = self._observe(c)
        return o

    # ---- the property on the real behaviour -------------------------------------------------------
    def _check(self, c):
        """the property, on what the real class did.  returns (message or None, measurements)"""
        cap = c['cap']
        m = {'zero': 0, 'zero_queued': 0, 'queued': 0, 'multi': 0, 'follower': 0, 'behind_queue': 0, 'same_iter': 0, 'woken_then_release': 0, 'woken_then_acquire': 0}
        groups = self._groups(c)
        if any(o[0] == 'a' and o[2] > cap for g in groups for o in g):
            return None, m  # outside the quantifier (weights <= capacity)
        obs = self._get_obs(c)
        weights = {}
        pending = []          # arrived, not yet in a body: arrival order
        inbody = set()
        arrival_no = {}       # task -> arrival index (of its current incarnation)
        last_served = -1      # largest arrival index that ever entered a body
        n_arrived = 0
        for k, (g, ob) in enumerate(zip(groups, obs)):
            if ob is None:
                return None, m  # the op list does not respect the protocol: outside the quantifier
            at = f'group {k} {g}'
            if len(g) > 1:
                m['same_iter'] += 1
            for o in g:
                if o[0] == 'a':
                    weights[o[1]] = o[2]
                    pending.append(o[1])
                    arrival_no[o[1]] = n_arrived
                    n_arrived += 1
                else:
                    inbody.discard(o[1])
            n_waited = 0
            for (i, immediate, v_at, inside_at) in ob['entries']:
                where = f'{at}: when task {i} entered its body'
                running = sum(weights[j] for j in inside_at)
                if running > cap:
                    return f'{where} the running bodies {inside_at} used {running} > capacity {cap}', m
                if v_at < 0:
                    return f'{where} the free value was {v_at} < 0', m
                owned_by_woken = cap - v_at - running
                if owned_by_woken < 0:
                    return f'{where} value {v_at} + running {running} exceeded the capacity {cap}', m
                if i not in pending:
                    return f'{where}: it had not asked, or entered twice', m
                earlier = pending[:pending.index(i)]
                if not immediate:
                    n_waited += 1
                    if earlier:
                        return f'{where} (after waiting), the earlier arrivals {earlier} had not been served: not FIFO', m
                else:
                    # a task that gets in without waiting may find earlier arrivals not yet running only if they have been woken and
                    # own their weight already (value + running + owned = capacity); otherwise it overtook a waiter
                    need = sum(weights[j] for j in earlier)
                    if need > owned_by_woken:
                        return (f'{where} without waiting, the earlier arrivals {earlier} (weights {need}) were still waiting while only '
                                f'{owned_by_woken} was reserved for woken waiters (value {v_at}, running {running}): it overtook the queue'), m
                    if need < owned_by_woken:
                        return f'{where} {owned_by_woken} was neither free nor held by anybody (value {v_at}, running {running})', m
                    if earlier:
                        m['woken_then_acquire'] += 1
                pending.remove(i)
                inbody.add(i)
                last_served = max(last_served, arrival_no[i])
            # at rest
            v, h = ob['v'], ob['h']
            rest = f'after {at}'
            if v < 0:
                return f'{rest}: value {v} < 0', m
            held = sum(weights[i] for i in h)
            if v + held != cap:
                return f'{rest}: value {v} + held {held} != capacity {cap} (in a body: {h})', m
            if set(h) != inbody:
                return f'{rest}: in a body {sorted(h)} but expected {sorted(inbody)} from the entries and exits observed', m
            if pending and arrival_no[pending[0]] < last_served:
                return (f'{rest}: task {pending[0]} still waits although a later arrival has been served (weight-independent FIFO '
                        f'check; covers waiters of weight 0, which reserve nothing)'), m
            if pending and not v < weights[pending[0]]:
                return f'{rest}: head of queue {pending[0]} (weight {weights[pending[0]]}) is blocked although value is {v}', m
            if not h and pending:
                return f'{rest}: nobody holds but {pending} wait', m
            # measurements
            rels = [o for o in g if o[0] == 'r']
            for o in g:
                if o[0] == 'a' and o[2] == 0:
                    m['zero'] += 1
                    if o[1] in pending:
                        m['zero_queued'] += 1
                if o[0] == 'a' and o[1] in pending:
                    m['queued'] += 1
                    if weights[o[1]] <= v and pending[0] != o[1]:
                        m['behind_queue'] += 1
            if n_waited >= 2:
                m['multi'] += 1
            if len(rels) >= 2 and n_waited:
                m['woken_then_release'] += 1
            if pending and any(weights[i] <= v for i in pending[1:]):
                m['follower'] += 1
        return None, m

    def oracle(self, c, out):
        if out and out[0].startswith('IMPL-EXC'):
            return out[0]
        return self._check(c)[0]

    def classify(self, c, out):
        groups = self._groups(c)
        tags = [f"len={min(len(groups), 16)}", f"cap={c['cap']}"]
        if out and out[0].startswith('IMPL-EXC'):
            return (None, tags + ['impl-exception'])
        _, m = self._check(c)
        self._obs.pop(json.dumps(c, sort_keys=True), None)
        if 'err' in out:
            tags.append('protocol-err')
        tags.append('queued' if m['queued'] else 'no-contention')
        for k, name in (('multi', 'group-wakes>=2'), ('follower', 'blocked-head-with-fitting-follower'),
                        ('behind_queue', 'fitting-arrival-behind-queue'), ('same_iter', 'same-iteration-group'),
                        ('woken_then_release', 'two-releases-before-woken-waiter-runs'),
                        ('woken_then_acquire', 'acquire-between-wake-up-and-resume'), ('zero', 'weight-0-acquire'),
                        ('zero_queued', 'weight-0-waiter-queued')):
            if m[k]:
                tags.append(name)
        return (json.dumps(c, sort_keys=True) if m['queued'] else None, tags)

    def finding_key(self, c, msg):
        return json.dumps(c, sort_keys=True)

    def shrink(self, c, fails):
        cap = c['cap']
        groups = [list(g) for g in self._groups(c)]
        if not fails({'cap': cap, 'groups': groups}):
            return c

        def ok(gs):
            try:
                self._sim(cap, gs)
            except KeyError:
                return False
            return fails({'cap': cap, 'groups': gs})
        groups = generic_shrink_list(groups, ok)
        changed = True
        while changed:
            changed = False
            for k, g in enumerate(groups):
                if len(g) > 1:
                    for drop in range(len(g)):
                        cand = groups[:k] + [g[:drop] + g[drop + 1:]] + groups[k + 1:]
                        if ok(cand):
                            groups, changed = cand, True
                            break
                if changed:
                    break
        return {'cap': cap, 'groups': groups}


PROP = C16()

"""C16 Worker CPU semaphore is safe, FIFO and live — correspondence of FifoSem.step with the real
batch.semaphore.FIFOWeightedSemaphore driven under the deterministic event loop (harness/aloop.py)."""
import importlib.util
import json
import os

from .. import aloop
from ..framework import Prop, generic_shrink_list


def _fmt(l):
    return ','.join(str(x) for x in l)


class C16(Prop):
    id = 'C16'
    title = 'Worker CPU semaphore is safe, FIFO and live'
    lean_props = ['HailVerif.Props.C16']
    driver = 'Driver/C16.lean'
    engine = 'E2-async'
    design_ref = 'DESIGN.md §4 C16'
    technique = ('Lean 4 proof by induction over op lists of a state-machine model whose steps are the atomic blocks between awaits + '
                 'differential correspondence with the real class under a deterministic asyncio loop')
    level_text = ('Theorems for all op lists (all interleavings of acquire/release by any number of tasks, weights <= capacity): value + held = '
                  'capacity and value >= 0; tasks granted from the queue ++ tasks still queued = tasks that queued, in arrival order (FIFO); an '
                  'arrival never overtakes a non-empty queue; after every step a non-empty queue has a head that does not fit; nobody waits when '
                  'nobody holds. The model is tied to the real FIFOWeightedSemaphore by comparing (value, holders, waiting order, grant order) '
                  'after every op of random and (thorough) exhaustive small op sequences.')
    level_note = ('Trusted: Lean kernel; the hand-written model FifoSem agrees with the Python class only as far as the correspondence cases '
                  'show; asyncio atomicity between awaits; cancellation of waiters is outside the property.')
    budget = {'quick': 5000, 'thorough': 40000}
    search_budget = {'quick': 5000, 'thorough': 40000}
    rule = ('case = (capacity, op sequence); jobs are coroutines `async with sem(w): await gate`; op acquire = spawn a job, op release = open '
            'its gate; after every op the loop is run to quiescence and (sem.value, ids inside the body, waiting order, order in which jobs '
            'entered the body during this op) is compared with the model; non-trivial = at least one acquire had to queue; distinct by full case')
    trusted = ['harness/aloop.py deterministic event loop (real asyncio.SelectorEventLoop with a virtual clock; ready queue never permuted)',
               'waiting order is read from sem.queue through asyncio.Event._waiters / Task._fut_waiter (falls back to arrival order)']
    assumptions = ['waiters are not cancelled (explicitly outside C16)', 'one event loop thread; code is atomic between awaits']

    def setup(self, repo):
        path = os.path.join(repo, 'batch', 'batch', 'semaphore.py')
        spec = importlib.util.spec_from_file_location('verif_c16_semaphore', path)
        mod = importlib.util.module_from_spec(spec)
        spec.loader.exec_module(mod)     # pure stdlib module; loaded by path so that the batch package __init__ is not needed
        self.Sem = mod.FIFOWeightedSemaphore

    # ---- generation ----------------------------------------------------------------------------
    @staticmethod
    def _sim(cap, ops):
        """reference bookkeeping used ONLY to generate protocol-respecting op lists (who may release); not the oracle"""
        value, queue, holders = cap, [], {}
        for op in ops:
            if op[0] == 'a':
                _, i, w = op
                if not queue and value >= w:
                    value -= w
                    holders[i] = w
                else:
                    queue.append((i, w))
            else:
                w = holders.pop(op[1])
                value += w
                while queue and value >= queue[0][1]:
                    i, w = queue.pop(0)
                    value -= w
                    holders[i] = w
        return value, queue, holders

    def _random_case(self, rng):
        cap = rng.choice([1, 2, 3, 4, 4, 5, 6, 8])
        max_tasks = rng.choice([2, 3, 4, 5, 6, 8])
        n = rng.choice([3, 5, 7, 9, 12, 16])
        style = rng.random()
        ops = []
        for _ in range(n):
            _, queue, holders = self._sim(cap, ops)
            active = set(holders) | {i for i, _ in queue}
            can_acq = len(active) < max_tasks
            p_acq = 0.65 if style < 0.5 else 0.5
            if holders and (not can_acq or rng.random() > p_acq):
                ops.append(['r', rng.choice(sorted(holders))])
            elif can_acq:
                i = rng.choice([j for j in range(max_tasks) if j not in active])
                r = rng.random()
                if r < 0.25:
                    w = cap
                elif r < 0.5:
                    w = 1
                else:
                    w = rng.randint(1, cap)
                ops.append(['a', i, w])
        return {'cap': cap, 'ops': ops}

    def _exhaustive(self, cap, length, max_tasks):
        out = []

        def rec(ops):
            if len(ops) == length:
                out.append({'cap': cap, 'ops': [list(o) for o in ops]})
                return
            _, queue, holders = self._sim(cap, ops)
            active = set(holders) | {i for i, _ in queue}
            if len(active) < max_tasks:
                i = min(j for j in range(max_tasks) if j not in active)   # ids are interchangeable: canonical fresh id
                for w in range(1, cap + 1):
                    rec(ops + [['a', i, w]])
            for i in sorted(holders):
                rec(ops + [['r', i]])
        rec([])
        return out

    def cases(self, rng, n, tier):
        if tier == 'thorough':
            # every protocol-respecting sequence of exactly 7 ops (all shorter ones are prefixes and are compared line by line)
            for cap in (1, 2, 3, 4):
                yield from self._exhaustive(cap, 7, 4)
        else:
            for cap in (1, 2, 3):
                yield from self._exhaustive(cap, 4, 3)
        for _ in range(n):
            yield self._random_case(rng)

    def search_cases(self, rng, n, hint):
        for cap in (1, 2, 3):
            yield from self._exhaustive(cap, 5, 3)
        for _ in range(n):
            yield self._random_case(rng)

    # ---- model ---------------------------------------------------------------------------------
    def model_lines(self, c):
        return ['reset', f"cap {c['cap']}"] + [f'acquire {o[1]} {o[2]}' if o[0] == 'a' else f'release {o[1]}' for o in c['ops']]

    # ---- real code -----------------------------------------------------------------------------
    def _waiting_order(self, sem, tasks, arrival):
        """ids of the blocked jobs in the order of sem.queue (events mapped to the task blocked on them)"""
        try:
            order = []
            for ev, _w in sem.queue:
                owner = [i for i, t in tasks.items() if not t.done() and t._fut_waiter is not None and t._fut_waiter in ev._waiters]
                if len(owner) != 1:
                    raise AttributeError
                order.append(owner[0])
            return order
        except (AttributeError, TypeError, ValueError):
            return list(arrival)

    def impl(self, c):
        s = aloop.Sched()
        try:
            sem = self.Sem(c['cap'])
            inside = set()
            log = []
            tasks = {}
            gen = {}
            arrival = []

            async def job(i, w, gate):
                async with sem(w):
                    inside.add(i)
                    log.append(i)
                    try:
                        await gate
                    finally:
                        inside.discard(i)

            def line():
                g = list(log)
                del log[:]
                for i in g:
                    if i in arrival:
                        arrival.remove(i)
                return f'v={sem.value} h={_fmt(sorted(inside))} q={_fmt(self._waiting_order(sem, tasks, arrival))} g={_fmt(g)}'

            out = ['ok', line()]
            for op in c['ops']:
                if op[0] == 'a':
                    _, i, w = op
                    if i in tasks and not tasks[i].done():
                        out.append('err')
                        continue
                    gen[i] = gen.get(i, 0) + 1
                    gate = s.gate((i, gen[i]))
                    arrival.append(i)
                    tasks[i] = s.spawn(i, job(i, w, gate))
                else:
                    i = op[1]
                    if i not in inside:
                        out.append('err')
                        continue
                    s.open((i, gen[i]))
                for i, t in tasks.items():
                    if t.done() and not t.cancelled() and t.exception() is not None:
                        raise t.exception()
                out.append(line())
            return out
        finally:
            s.close()

    # ---- the property on the real behaviour -------------------------------------------------------
    @staticmethod
    def _parse(line):
        d = {}
        for tok in line.split(' '):
            k, _, v = tok.partition('=')
            d[k] = v
        f = lambda x: [int(y) for y in x.split(',') if y != '']
        return int(d['v']), f(d['h']), f(d['g'])

    def _walk(self, c, out):
        """yields per op: (op, value, holders, granted_now, waiting_before, waiting_after, weights) from the REAL output; waiting order
        is reconstructed from the ops (arrival order), never from the model"""
        cap = c['cap']
        weights = {}
        waiting = []
        holders = set()
        for op, ln in zip(c['ops'], out[2:]):
            if ln == 'err':
                yield (op, None, None, None, list(waiting), list(waiting), dict(weights), set(holders))
                continue
            v, h, g = self._parse(ln)
            before = list(waiting)
            hb = set(holders)
            if op[0] == 'a':
                weights[op[1]] = op[2]
                waiting.append(op[1])
            for i in g:
                if i in waiting:
                    waiting.remove(i)
            holders = set(h)
            yield (op, v, h, g, before, list(waiting), dict(weights), hb)

    def oracle(self, c, out):
        if out and out[0].startswith('IMPL-EXC'):
            return out[0]
        cap = c['cap']
        if any(o[0] == 'a' and o[2] > cap for o in c['ops']):
            return None  # outside the quantifier (weights <= capacity)
        for k, (op, v, h, g, before, after, weights, hb) in enumerate(self._walk(c, out)):
            if v is None:
                return None  # op list does not respect the protocol: outside the quantifier
            at = f'after op {k} {op}'
            if v < 0:
                return f'{at}: value {v} < 0'
            held = sum(weights[i] for i in h)
            if v + held != cap:
                return f'{at}: value {v} + held {held} != capacity {cap} (holders {h})'
            # bookkeeping of who is inside
            exp = set(hb) | set(g)
            if op[0] == 'r':
                exp.discard(op[1])
                if op[1] in h:
                    return f'{at}: task {op[1]} still holds after release'
            if exp != set(h):
                return f'{at}: holders {sorted(h)} but expected {sorted(exp)} from the entries observed'
            if op[0] == 'a' and before and op[1] in g:
                return f'{at}: arrival {op[1]} was granted while {before} were queued (barging)'
            gq = [i for i in g if i in before]     # tasks granted out of the queue by this op, in the order they entered
            if gq != before[:len(gq)]:
                return f'{at}: queued tasks granted in order {gq}, arrival order was {before}'
            if after and not v < weights[after[0]]:
                return f'{at}: head of queue {after[0]} (weight {weights[after[0]]}) is blocked although value is {v}'
            if not h and after:
                return f'{at}: nobody holds but {after} wait'
        return None

    def classify(self, c, out):
        tags = [f"len={min(len(c['ops']), 16)}", f"cap={c['cap']}"]
        queued = multi = follower = barg = 0
        try:
            for (op, v, h, g, before, after, weights, hb) in self._walk(c, out):
                if v is None:
                    tags.append('protocol-err')
                    continue
                if op[0] == 'a' and op[1] in after:
                    queued += 1
                    if before and op[2] <= v:
                        barg += 1
                if op[0] == 'r' and len(g) >= 2:
                    multi += 1
                if after and any(weights[i] <= v for i in after[1:]):
                    follower += 1
        except Exception:
            tags.append('unparsable')
        tags.append('queued' if queued else 'no-contention')
        if multi:
            tags.append('release-grants>=2')
        if follower:
            tags.append('blocked-head-with-fitting-follower')
        if barg:
            tags.append('fitting-arrival-behind-queue')
        return (json.dumps(c, sort_keys=True) if queued else None, tags)

    def finding_key(self, c, msg):
        return json.dumps(c, sort_keys=True)

    def shrink(self, c, fails):
        def ok(ops):
            try:
                self._sim(c['cap'], ops)
            except KeyError:
                return False
            return fails({'cap': c['cap'], 'ops': ops})
        ops = generic_shrink_list(c['ops'], ok) if fails(c) else c['ops']
        return {'cap': c['cap'], 'ops': ops}


PROP = C16()

"""C21 Retry policy retries exactly the transient failures — correspondence of the Lean model HailVerif.Retry with the real
is_limited_retries_error / is_rate_limit_error / is_transient_error / delay_ms_for_try / retry_transient_errors* of
hailtop/utils/utils.py (real exception objects; real loop under the virtual clock with the jitter draw patched), and the
property's contract evaluated on what the real loop did."""
import asyncio
import errno
import importlib
import json
import logging
import random as _random
import socket

from .. import aloop, loader
from ..framework import Prop, generic_shrink_list

RETRY_ONCE_MSGS = ('User project specified in the request is invalid.', 'Invalid grant: account not found')
BODIES = {'none': 'nothing to see', 'rl': 'error: rateLimitExceeded for project', 'ro': 'Invalid grant: account not found',
          'ro2': 'User project specified in the request is invalid.', 'both': 'rateLimitExceeded; Invalid grant: account not found'}
BASE_MS, MAX_MS, LOG2_MAX = 1000, 60000, 30      # the documented bounds the oracle checks against


class ScriptEnded(BaseException):
    """the scripted function ran out of script (aborts the loop; not an Exception so the loop cannot swallow it)"""


class C21(Prop):
    id = 'C21'
    title = 'Retry policy retries exactly the transient failures'
    lean_props = ['HailVerif.Props.C21']
    driver = 'Driver/C21.lean'
    engine = 'E3-pure'
    design_ref = 'DESIGN.md §4 C21'
    technique = ('Lean 4 proofs about an executable model of the classifiers, the retry decision, the loop (induction on the script) and '
                 'the delay function + differential correspondence with the real functions on real exception objects and with the real '
                 'retry loop under a virtual clock')
    level_text = ('Theorems for all exceptions (any descriptor tree: class mix, __cause__ chain, os_error), all try counts, all scripts and '
                  'all values of the random draw: a transient or rate-limit failure is always retried; a limited-retry error that is not '
                  'otherwise transient is retried exactly while tries <= 5, so a run without transient failures sleeps at most five times; '
                  'any other error is raised at once; every delay lies in [min(ceiling/2, max), min(ceiling, max)] with ceiling = '
                  'base*2^min(tries,30) and never exceeds max; for any finite list of retryable failures followed by a success the loop '
                  'returns that success after exactly that many sleeps (induction on the list). The model is tied to the real code by '
                  'comparing the three classifiers on real exception objects (aiohttp, OSError errnos, hailtop classes, chained), the '
                  'loop outcome / number of calls / every requested sleep of the real retry functions, and delay_ms_for_try.')
    level_note = ('The classification table (status codes, errnos, message substrings, tries <= 5) of the current code is the definition of '
                  '"transient"; the Lean model copies it, and a Python twin of the model\'s table (harness-side reference classifiers, '
                  'independent of the code under test) is what the oracle judges the real classifiers and the real loop against, so an '
                  'edit of a classifier yields a failing exception object. Branches for aiodocker, '
                  'urllib3, requests and botocore classes are absent from the model: those libraries are inert stubs here and no exception '
                  'is an instance of their classes. The feature vector handed to the model is computed by the harness from the real '
                  'exception object (isinstance / attribute reads).')
    budget = {'quick': 2500, 'thorough': 40000}
    search_budget = {'quick': 3000, 'thorough': 30000}
    rule = ('case kinds: classify (one exception object, possibly chained through __cause__/__context__, through the three real '
            'classifiers), run (a scripted coroutine function raising real exception objects — HTTP errors with response headers: '
            'Retry-After numeric / date / absent / headers=None; hailtop.httpx errors built by the real constructor from bodies whose marker '
            'text lies at offset 0 / mid-body / beyond 1 KiB / beyond 64 KiB — then returning, driven by the real '
            'retry_transient_errors / _with_debug_string / _with_delayed_warnings under the virtual-clock loop, random.randrange patched '
            'to draw % n, asyncio.sleep recorded), delay (delay_ms_for_try with arbitrary tries/base/max/draw). Compared with the model: '
            'classifier triple; outcome, number of calls, list of requested sleeps in ms; the delay. non-trivial = a chained or '
            'multi-class exception, or a run with at least one retry; distinct by full case')
    trusted = ['harness/aloop.py VLoop (virtual clock); random.randrange and asyncio.sleep are patched for the duration of one run',
               'harness/loader.py inert stubs for botocore, requests, urllib3, aiodocker, google (never instances of anything)',
               'the harness computes the model\'s feature vector of an exception from the real object with isinstance/attribute reads']
    assumptions = ['exception chains are finite trees (a cyclic __cause__ chain makes the unchanged classifiers recurse until '
                   'RecursionError; outside the model)', 'scripted failures of the retried function are instances of Exception (CancelledError / KeyboardInterrupt propagate '
                   'unconditionally and are outside the model)', 'HAIL_DONT_RETRY_500 is unset', 'errno numbers are those of Linux', 
                   'exceptions are not instances of aiodocker / urllib3 / requests / botocore classes']

    # ---- real objects ----------------------------------------------------------------------------
    def setup(self, repo):
        loader.install(repo)
        logging.disable(logging.CRITICAL)
        self.U = importlib.import_module('hailtop.utils.utils')
        self.hx = importlib.import_module('hailtop.httpx')
        self.gcp = importlib.import_module('hailtop.aiocloud.aiogoogle.client.compute_client')
        import aiohttp
        from aiohttp.client_reqrep import ConnectionKey
        from yarl import URL
        self.aiohttp = aiohttp
        self.ri = aiohttp.RequestInfo(URL('http://host/'), 'GET', {}, URL('http://host/'))
        self.ck = ConnectionKey('host', 80, False, True, None, None, None)

    @staticmethod
    def _headers(ra):
        """response headers of a failed request: `ra` = 'none' (headers=None) | 'absent' | 'date' | a number of seconds"""
        if ra == 'none':
            return None
        from multidict import CIMultiDict, CIMultiDictProxy
        h = CIMultiDict({'Content-Type': 'application/json'})
        if ra == 'date':
            h['Retry-After'] = 'Wed, 21 Oct 2026 07:28:00 GMT'
        elif ra != 'absent':
            h['Retry-After'] = str(ra)
        return CIMultiDictProxy(h)

    def build(self, sp):
        """real exception object from its JSON spec"""
        if sp is None:
            return None
        a, c = self.aiohttp, sp['c']
        if c == 'aioCRE':
            e = a.ClientResponseError(self.ri, (), status=sp['status'], message='msg', headers=self._headers(sp.get('ra', 'absent')))
        elif c == 'httpxCRE':
            # built by the REAL constructor from the intended (status, full body): whatever the constructor does to its arguments
            # is part of what is exercised; `pad` characters of other text precede the marker text
            body = 'x' * sp.get('pad', 0) + BODIES[sp['body']]
            e = self.hx.ClientResponseError(self.ri, (), body=body, status=sp['status'], message='msg',
                                            headers=self._headers(sp.get('ra', 'absent')))
            e._verif_intended_body = body      # harness annotation for the reference classifier (the code never reads it)
        elif c == 'gcp':
            codes = {'quota': ['FOO', 'QUOTA_EXCEEDED'], 'other': ['FOO'], 'none': None}[sp['codes']]
            e = self.gcp.GCPOperationError(400, 'msg', codes, None, {})
        elif c == 'srvTimeout':
            e = a.ServerTimeoutError()
        elif c == 'srvDisc':
            e = a.ServerDisconnectedError()
        elif c == 'timeout':
            e = asyncio.TimeoutError()
        elif c == 'sockTimeout':
            e = socket.timeout('timed out')
        elif c == 'connector':
            e = a.ClientConnectorError(self.ck, self.build(sp['os']))
        elif c == 'payload':
            args = {'incomplete': ('Response payload is not completed',), 'other': ('bad payload',), 'noargs': (), 'none': (None,),
                    'int': (5,), 'bytes': (b'Response payload is not completed',), 'tail': ('error', 'Response payload is not completed'),
                    'mid': ('x. Response payload is not completed. <ConnectionResetError>',)}[sp['msg']]
            e = a.ClientPayloadError(*args)
        elif c == 'clientOS':
            se = {'ssl': '[SSL: SSLV3_ALERT_BAD_RECORD_MAC] sslv3 alert bad record mac (_ssl.c:2548)', 'other': 'something'}[sp['strerror']]
            e = a.ClientOSError(sp['errno'], se)
        elif c in ('os', 'reset', 'refused', 'gai', 'pipe'):
            cls = {'os': OSError, 'reset': ConnectionResetError, 'refused': ConnectionRefusedError, 'gai': socket.gaierror,
                   'pipe': BrokenPipeError}[c]
            e = cls() if sp['errno'] is None else cls(sp['errno'], 'os error')
        elif c == 'transient':
            e = self.U.TransientError('t')
        elif c == 'cancelled':
            e = asyncio.CancelledError()
        else:
            e = {'value': ValueError, 'runtime': RuntimeError, 'key': KeyError}[c]('x')
        if sp.get('cause') is not None:
            e.__cause__ = self.build(sp['cause'])
        if sp.get('ctx') is not None:
            e.__context__ = self.build(sp['ctx'])
        return e

    @staticmethod
    def _retry_after(e):
        h = getattr(e, 'headers', None)
        v = str((h or {}).get('Retry-After', ''))
        return int(v) if v.isdigit() else -1

    def describe(self, e):
        """the model's view of a real exception object (atomic isinstance / attribute facts only; no classification logic)"""
        if e is None:
            return 'N'
        a = self.aiohttp
        b = lambda x: 1 if x else 0
        is_hx = isinstance(e, self.hx.ClientResponseError)
        body = e.body if is_hx else ''
        is_os = isinstance(e, OSError)
        f = [e.status if isinstance(e, a.ClientResponseError) else -1,
             e.status if is_hx else -1,
             b('rateLimitExceeded' in body),
             b(any(m in body for m in RETRY_ONCE_MSGS)),
             b(isinstance(e, self.gcp.GCPOperationError) and e.error_codes is not None and 'QUOTA_EXCEEDED' in e.error_codes),
             b(isinstance(e, a.ServerTimeoutError)),
             b(isinstance(e, a.ServerDisconnectedError)),
             b(isinstance(e, asyncio.TimeoutError)),
             b(isinstance(e, a.ClientConnectorError)),
             (-1 if not isinstance(e, a.ClientPayloadError) else 0 if not e.args else 1 if not isinstance(e.args[0], str)
              else 3 if 'Response payload is not completed' in e.args[0] else 2),
             b(isinstance(e, a.ClientOSError) and e.strerror and 'sslv3 alert bad record mac' in e.strerror),
             b(is_os),
             b(is_os and e.errno is not None),
             e.errno if (is_os and e.errno is not None) else 0,
             b(isinstance(e, socket.gaierror)),
             b(isinstance(e, self.U.TransientError)),
             b(isinstance(e, ConnectionResetError)),
             b(isinstance(e, ConnectionRefusedError)),
             self._retry_after(e)]
        os_ = self.describe(e.os_error) if isinstance(e, a.ClientConnectorError) else 'N'
        return '[' + ','.join(str(int(x)) for x in f) + '|' + os_ + '|' + self.describe(e.__cause__) + ']'

    # ---- the reference classification (independent of the code under test) ---------------------------
    # A Python twin of the table of lean/HailVerif/Model/Retry.lean (the documented classes of the current code), evaluated on the
    # real exception object.  The oracle uses THIS as the definition of limited / rate-limit / transient, so that an edit of a
    # classifier in the code shows up as a failing exception object and not only as a model mismatch.
    REF_STATUSES = {408, 429, 500, 502, 503, 504}
    REF_ERRNOS = {errno.EADDRNOTAVAIL, errno.ETIMEDOUT, errno.ECONNREFUSED, errno.EHOSTUNREACH, errno.ECONNRESET,
                  errno.ENETUNREACH, errno.EPIPE}

    @staticmethod
    def _intended_body(e):
        """the response body the exception was built FROM (not what the constructor stored)"""
        return getattr(e, '_verif_intended_body', e.body)

    def ref_limited(self, e):
        if e is None:
            return False
        if isinstance(e, self.hx.ClientResponseError):
            return e.status == 400 and any(m in self._intended_body(e) for m in RETRY_ONCE_MSGS)
        if isinstance(e, (ConnectionResetError, ConnectionRefusedError)):
            return True
        return self.ref_limited(e.__cause__)

    def ref_rate_limit(self, e):
        if isinstance(e, self.aiohttp.ClientResponseError) and e.status == 429:
            return True
        return isinstance(e, self.hx.ClientResponseError) and (e.status == 429 or (e.status == 403
                                                                                    and 'rateLimitExceeded' in self._intended_body(e)))

    def ref_transient(self, e):
        a = self.aiohttp
        if e is None:
            return False
        if isinstance(e, a.ClientResponseError) and e.status in self.REF_STATUSES:
            return True
        if isinstance(e, self.gcp.GCPOperationError) and e.error_codes is not None and 'QUOTA_EXCEEDED' in e.error_codes:
            return True
        if isinstance(e, self.hx.ClientResponseError) and (e.status in self.REF_STATUSES
                                                            or (e.status == 403 and 'rateLimitExceeded' in self._intended_body(e))):
            return True
        if isinstance(e, (a.ServerTimeoutError, a.ServerDisconnectedError, asyncio.TimeoutError)):
            return True
        if isinstance(e, a.ClientConnectorError) and self.ref_transient(e.os_error):
            return True
        if (isinstance(e, a.ClientPayloadError) and len(e.args) > 0 and isinstance(e.args[0], str)
                and 'Response payload is not completed' in e.args[0]):
            return True
        if isinstance(e, a.ClientOSError) and e.strerror and 'sslv3 alert bad record mac' in e.strerror:
            return True
        if isinstance(e, OSError) and e.errno in self.REF_ERRNOS:
            return True
        if isinstance(e, socket.gaierror) and e.errno in (socket.EAI_AGAIN, socket.EAI_NONAME):
            return True
        if isinstance(e, self.U.TransientError):
            return True
        return self.ref_transient(e.__cause__)          # only an explicit `raise … from` chain is followed

    def ref_classes(self, e):
        return (self.ref_limited(e), self.ref_rate_limit(e), self.ref_transient(e))

    # ---- generation ----------------------------------------------------------------------------
    STATUSES = [200, 400, 403, 404, 408, 429, 499, 500, 501, 502, 503, 504]
    ERRNOS = [None, 1, 32, 99, 101, 104, 110, 111, 113, 98, 2]

    def _leaves(self):
        out = []
        for s in self.STATUSES:
            out.append({'c': 'aioCRE', 'status': s})
            for body in BODIES:
                out.append({'c': 'httpxCRE', 'status': s, 'body': body})
        for s_ in (429, 503, 403, 400):
            for ra in ('none', 'date', 1, 45, 300, 86400):
                out.append({'c': 'aioCRE', 'status': s_, 'ra': ra})
                out.append({'c': 'httpxCRE', 'status': s_, 'body': 'rl' if s_ == 403 else 'none', 'ra': ra})
        for pad in (500, 1000, 1024, 2000, 70000):       # the marker text in the middle of / beyond 1 KiB / beyond 64 KiB of body
            for s_, body in ((403, 'rl'), (400, 'ro'), (400, 'ro2'), (403, 'both'), (429, 'none'), (404, 'rl')):
                out.append({'c': 'httpxCRE', 'status': s_, 'body': body, 'pad': pad})
        out += [{'c': 'gcp', 'codes': k} for k in ('quota', 'other', 'none')]
        out += [{'c': k} for k in ('srvTimeout', 'srvDisc', 'timeout', 'sockTimeout', 'transient', 'value', 'runtime', 'key', 'cancelled')]
        out += [{'c': 'payload', 'msg': m} for m in ('incomplete', 'other', 'noargs', 'none', 'int', 'bytes', 'tail', 'mid')]
        for en in self.ERRNOS:
            for c in ('os', 'reset', 'refused'):
                out.append({'c': c, 'errno': en})
            if en is not None:
                out.append({'c': 'clientOS', 'errno': en, 'strerror': 'ssl'})
                out.append({'c': 'clientOS', 'errno': en, 'strerror': 'other'})
        out += [{'c': 'gai', 'errno': en} for en in (socket.EAI_AGAIN, socket.EAI_NONAME, socket.EAI_FAIL, None)]
        out.append({'c': 'pipe', 'errno': errno.EPIPE})
        return out

    def _random_exc(self, rng, depth=0):
        leaves = self._leaves_cache
        r = rng.random()
        if r < 0.12 and depth < 2:
            inner = rng.choice([{'c': 'os', 'errno': rng.choice(self.ERRNOS)}, {'c': 'refused', 'errno': rng.choice([None, 111])},
                                {'c': 'sockTimeout'}, {'c': 'gai', 'errno': rng.choice([socket.EAI_AGAIN, socket.EAI_FAIL])},
                                {'c': 'os', 'errno': 1, 'cause': {'c': 'transient'}}])
            e = {'c': 'connector', 'os': inner}
        else:
            e = dict(rng.choice(leaves))
        if depth < 2 and rng.random() < 0.3:
            e['cause'] = self._random_exc(rng, depth + 1)
        if depth < 2 and rng.random() < 0.12:
            e['ctx'] = self._random_exc(rng, depth + 1)
        return e

    @staticmethod
    def _wrap(core, depth):
        """`core` under `depth` layers of `raise Wrapper(...) from inner`"""
        sp = core
        for d in range(depth):
            sp = {'c': ('runtime', 'key', 'value')[d % 3], 'cause': sp}
        return sp

    def _category(self, sp):
        """(limited, rate-limit, transient) of a spec by the REFERENCE classification (used to compose scripts and for the measured
        distribution; never the code under test, which may be broken)"""
        return self.ref_classes(self.build(sp))

    def _pools(self, rng):
        """exception specs by class (used only to compose interesting scripts)"""
        if not hasattr(self, '_pool_cache'):
            pools = {}
            cand = list(self._leaves_cache)
            r2 = _random.Random(12345)
            cand += [self._random_exc(r2) for _ in range(400)]
            cand += [self._wrap(core, d) for d in (3, 4, 5, 8) for core in ({'c': 'os', 'errno': errno.ETIMEDOUT}, {'c': 'transient'},
                                                                            {'c': 'reset', 'errno': None}, {'c': 'value'})]
            for sp in cand:
                if sp['c'] == 'cancelled':
                    continue     # not an Exception: the loop's `except Exception` never sees it (outside the property and the model)
                lim, rate, tr = self._category(sp)
                key = 'retryable' if (tr or rate) else ('limited' if lim else 'other')
                pools.setdefault(key, []).append(sp)
                if lim and tr:
                    pools.setdefault('limited+transient', []).append(sp)
            self._pool_cache = pools
        return self._pool_cache

    def _random_run(self, rng):
        pools = self._pools(rng)
        style = rng.random()
        n = rng.choice([1, 2, 3, 4, 5, 6, 7, 8, 10, 12])
        script = []
        for i in range(n):
            if style < 0.35:
                kind = 'retryable'
            elif style < 0.6:
                kind = 'limited' if rng.random() < 0.8 else 'retryable'
            elif style < 0.75:
                kind = rng.choice(['retryable', 'retryable', 'limited', 'limited+transient', 'other'])
            else:
                kind = rng.choice(['retryable', 'retryable', 'retryable', 'other']) if i == n - 1 else 'retryable'
            script.append(['F', rng.choice(pools[kind]), rng.choice([0, 1, 499, 500, 999, 1000, rng.randrange(1 << 40)])])
        if rng.random() < 0.9:
            script.append(['K', rng.randrange(100)])
        return {'k': 'run', 'fn': rng.choice(['rte', 'dbg', 'delayed']), 'script': script}

    def _random_delay(self, rng):
        return {'k': 'delay', 'tries': rng.choice([0, 1, 2, 5, 6, 7, 29, 30, 31, 40, rng.randrange(64)]),
                'base': rng.choice([0, 1, 3, 999, 1000, 1000, rng.randrange(1, 5000)]),
                'max': rng.choice([0, 1, 60000, 60000, 10 ** 9, 10 ** 15, rng.randrange(100000)]),
                'r': rng.choice([0, 1, rng.randrange(1 << 20), rng.randrange(1 << 50)])}

    def cases(self, rng, n, tier):
        self._leaves_cache = self._leaves()
        for sp in self._leaves_cache:
            yield {'k': 'classify', 'exc': sp}
        # every leaf as the __cause__ of a plain error and of a limited one; __context__ only must not be followed
        step = 1 if tier == 'thorough' else 3
        for sp in self._leaves_cache[::step]:
            yield {'k': 'classify', 'exc': {'c': 'runtime', 'cause': sp}}
            yield {'k': 'classify', 'exc': {'c': 'value', 'ctx': sp}}
            yield {'k': 'classify', 'exc': {'c': 'httpxCRE', 'status': 404, 'body': 'none', 'cause': sp}}
            yield {'k': 'classify', 'exc': {'c': 'connector', 'os': {'c': 'os', 'errno': 1, 'cause': sp}}}
        # deep `raise … from` chains: a transient / limited / rate-limit / permanent error under 0..8 (thorough: also 50) wrapping layers,
        # classified and driven through the real retry loop
        cores = [{'c': 'os', 'errno': errno.ETIMEDOUT}, {'c': 'transient'}, {'c': 'reset', 'errno': None}, {'c': 'aioCRE', 'status': 429},
                 {'c': 'httpxCRE', 'status': 400, 'body': 'ro'}, {'c': 'value'}]
        for depth in list(range(0, 9)) + ([50] if tier == 'thorough' else []):
            for core in cores:
                sp = self._wrap(core, depth)
                yield {'k': 'classify', 'exc': sp}
                yield {'k': 'run', 'fn': ('rte', 'dbg', 'delayed')[depth % 3], 'script': [['F', sp, 0], ['F', sp, 1], ['K', depth]]}
        for i in range(n):
            r = i % 10
            if r < 3:
                yield {'k': 'classify', 'exc': self._random_exc(rng) if rng.random() < 0.8 else
                       self._wrap(self._random_exc(rng), rng.randint(3, 8))}
            elif r < 9:
                yield self._random_run(rng)
            else:
                yield self._random_delay(rng)

    def search_cases(self, rng, n, hint):
        yield from self.cases(rng, n, 'quick')

    # ---- model ---------------------------------------------------------------------------------
    def model_lines(self, c):
        if c['k'] == 'classify':
            return ['classify ' + self.describe(self.build(c['exc']))]
        if c['k'] == 'delay':
            return [f"delay {c['tries']} {c['base']} {c['max']} {c['r']}"]
        toks = []
        for a in c['script']:
            toks.append(f'K{a[1]}' if a[0] == 'K' else f'F{a[2]}=' + self.describe(self.build(a[1])))
        return ['run ' + ' '.join(toks)]

    # ---- real code -----------------------------------------------------------------------------
    def impl(self, c):
        U = self.U
        if c['k'] == 'classify':
            e = self.build(c['exc'])
            b = lambda x: 1 if x else 0
            return [f'lim={b(U.is_limited_retries_error(e))} rate={b(U.is_rate_limit_error(e))} trans={b(U.is_transient_error(e))}']
        if c['k'] == 'delay':
            saved = U.random.randrange
            U.random.randrange = lambda n: c['r'] % n
            try:
                return [str(U.delay_ms_for_try(c['tries'], c['base'], c['max']))]
            finally:
                U.random.randrange = saved
        return [self._run(c)[0]]

    def _run(self, c):
        """drive the real retry function; returns (canonical line, raised exception is the one of the last call)"""
        U = self.U
        loop = aloop.VLoop()
        asyncio.set_event_loop(loop)
        saved_rr, saved_sleep = U.random.randrange, asyncio.sleep
        sleeps = []
        state = {'calls': 0, 'draw': 0, 'last': None}

        async def rec_sleep(d, *a, **k):
            sleeps.append(int(round(d * 1000)))
            return await saved_sleep(d, *a, **k)

        async def f():
            k = state['calls']
            state['calls'] += 1
            if k >= len(c['script']):
                raise ScriptEnded()
            att = c['script'][k]
            if att[0] == 'K':
                return att[1]
            state['draw'] = att[2]
            state['last'] = self.build(att[1])
            raise state['last']

        async def main():
            try:
                if c['fn'] == 'rte':
                    v = await U.retry_transient_errors(f)
                elif c['fn'] == 'dbg':
                    v = await U.retry_transient_errors_with_debug_string('debug', 0, f)
                else:
                    v = await U.retry_transient_errors_with_delayed_warnings(10 ** 9, f)
                return ('ret', v)
            except ScriptEnded:
                return ('ended', None)
            except BaseException as e:      # noqa: includes CancelledError raised by the script
                return ('raise', e)
        U.random.randrange = lambda n: state['draw'] % n
        asyncio.sleep = rec_sleep
        try:
            kind, v = loop.run_until_complete(main())
        finally:
            U.random.randrange, asyncio.sleep = saved_rr, saved_sleep
            asyncio.set_event_loop(None)
            loop.close()
        sl = ','.join(str(x) for x in sleeps)
        if kind == 'ret':
            return (f"ret {v} calls={state['calls']} sleeps={sl}", True)
        if kind == 'ended':
            return (f"ended calls={state['calls'] - 1} sleeps={sl}", True)
        return (f"raise calls={state['calls']} sleeps={sl}", v is state['last'])

    # ---- the property's contract on the real behaviour ---------------------------------------------
    @staticmethod
    def _bounds(tries, base=BASE_MS, mx=MAX_MS):
        ceiling = base * (1 << min(tries, LOG2_MAX))
        return min(ceiling // 2, mx), min(ceiling, mx)

    def oracle(self, c, out):
        if out and out[0].startswith('IMPL-EXC'):
            if c['k'] == 'classify':
                return (f"classification: a classifier is not total: on {json.dumps(c['exc'])} it raised {out[0][9:]} (inside the retry "
                        f'loop this unrelated exception would replace the original error)')
            return out[0]
        if c['k'] == 'classify':
            e = self.build(c['exc'])
            ref = self.ref_classes(e)
            got = tuple(x == '1' for x in (tok.split('=')[1] for tok in out[0].split(' ')))
            if got != ref:
                names = ('limited-retry', 'rate-limit', 'transient')
                diff = '; '.join(f"{n}: code says {'yes' if g else 'no'}, reference says {'yes' if r else 'no'}"
                                 for n, g, r in zip(names, got, ref) if g != r)
                return f"classification: {json.dumps(c['exc'])} — {diff}"
            return None
        if c['k'] == 'delay':
            d = int(out[0])
            lo, hi = self._bounds(c['tries'], c['base'], c['max'])
            if not lo <= d <= hi:
                return f"delay_bounds: delay_ms_for_try({c['tries']}, {c['base']}, {c['max']}) = {d} outside [{lo}, {hi}]"
            return None
        U = self.U
        head, calls_s, sleeps_s = out[0].rsplit(' ', 2)
        calls = int(calls_s.split('=')[1])
        sleeps = [int(x) for x in sleeps_s.split('=')[1].split(',') if x != '']
        # what the contract demands, walking the script with the REFERENCE classification
        want = None
        retries = 0
        for k, att in enumerate(c['script'], start=1):
            if att[0] == 'K':
                want = (f'ret {att[1]}', k, retries)
                break
            e = self.build(att[1])
            lim, rate, tr = self.ref_classes(e)
            if tr or rate or (lim and k <= 5):
                retries += 1
                continue
            why = 'a limited-retry error on try %d > 5' % k if lim else 'neither transient, rate-limit nor limited-retry'
            want = ('raise', k, retries, why, att[1])
            break
        if want is None:
            want = ('ended', len(c['script']), retries)
        if (head, calls, len(sleeps)) != (want[0], want[1], want[2]):
            extra = f' ({want[3]}: {json.dumps(want[4])})' if want[0] == 'raise' else ''
            return (f'retry contract: expected {want[0]} after {want[1]} calls and {want[2]} sleeps{extra}; the real loop did '
                    f'"{head}" after {calls} calls and {len(sleeps)} sleeps')
        for i, ms in enumerate(sleeps, start=1):
            lo, hi = self._bounds(i)
            if ms > MAX_MS:
                return f'delay_le_max: sleep before try {i + 1} was {ms} ms > {MAX_MS} ms'
            if not lo <= ms <= hi:
                return f'delay_bounds: sleep after failure {i} was {ms} ms, outside [{lo}, {hi}]'
        if want[0] == 'raise' and not self._run(c)[1]:
            return 'retry contract: the exception raised by the loop is not the exception of the last call'
        return None

    def classify(self, c, out):
        tags = ['kind=' + c['k']]
        if c['k'] == 'classify':
            sp = c['exc']
            chained = ('cause' in sp) or ('ctx' in sp) or sp['c'] == 'connector'
            tags.append('class=' + sp['c'])
            tags.append('verdict=' + out[0].replace(' ', ','))
            if 'cause' in sp:
                tags.append('has-cause')
            if 'ctx' in sp:
                tags.append('has-context-only' if 'cause' not in sp else 'has-context')
            flags = out[0]
            multi = flags.count('=1') >= 2
            return (json.dumps(c, sort_keys=True) if (chained or multi) else None, tags)
        if c['k'] == 'delay':
            lo, hi = self._bounds(c['tries'], c['base'], c['max'])
            tags.append('clamped' if hi == c['max'] else 'unclamped')
            tags.append('tries>30' if c['tries'] > 30 else 'tries<=30')
            return (json.dumps(c, sort_keys=True), tags)
        head, calls_s, sleeps_s = out[0].rsplit(' ', 2)
        n = len([x for x in sleeps_s.split('=')[1].split(',') if x != ''])
        tags.append('fn=' + c['fn'])
        tags.append('outcome=' + head.split(' ')[0])
        tags.append('retries=%s' % (n if n < 6 else '6+'))
        if str(MAX_MS) in sleeps_s.split('=')[1].split(','):
            tags.append('delay-clamped-to-max')
        cats = set()
        for att in c['script']:
            if att[0] == 'F':
                lim, rate, tr = self._category(att[1])
                cats.add('limited-only' if (lim and not tr and not rate) else 'limited+transient' if (lim and tr) else
                         'rate-limit' if rate else 'transient' if tr else 'other')
                if 'cause' in att[1]:
                    cats.add('chained')
        tags += ['script-has-' + x for x in sorted(cats)]
        return (json.dumps(c, sort_keys=True) if n > 0 else None, tags)

    def finding_key(self, c, msg):
        return json.dumps(c, sort_keys=True)

    def shrink(self, c, fails):
        if c['k'] != 'run' or not fails(c):
            return c
        script = generic_shrink_list(c['script'], lambda s: fails(dict(c, script=s)))
        cur = dict(c, script=script)
        for i, att in enumerate(list(cur['script'])):
            if att[0] == 'F':
                for simpler in ({k: v for k, v in att[1].items() if k not in ('cause', 'ctx')},):
                    cand = dict(cur, script=cur['script'][:i] + [['F', simpler, 0]] + cur['script'][i + 1:])
                    if simpler != att[1] or att[2] != 0:
                        if fails(cand):
                            cur = cand
        return cur


PROP = C21()

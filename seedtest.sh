#!/bin/bash
# seedtest.sh <PROPERTY> <tree-with-mutant> : run ./check against a mutated tree in an ISOLATED copy of /verif
# (so Generated/*.lean and evidence of the real /verif are not disturbed). Prints the check's output and exit code.
set -u
P="$1"; TREE="$2"; TIER="${3:-quick}"
COPY=/tmp/verifcopy-$$
mkdir -p "$COPY"
rsync -a --exclude .git --exclude replays /verif/ "$COPY"/
cd "$COPY"
HAIL_VERIF_REPO="$TREE" VERIF_SEED="${VERIF_SEED:-0}" ./check "$P" --tier "$TIER"
rc=$?
echo "seedtest: property=$P tree=$TREE exit=$rc"
if ls replays/*/*.json >/dev/null 2>&1; then echo "--- replay:"; head -c 1500 $(ls -t replays/*/*.json | head -1); echo; fi
cd /; rm -rf "$COPY"
exit $rc
